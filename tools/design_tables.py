"""Refresh the generated tables of DESIGN.md (fixed findings; seeded changes) between their markers."""
import glob, json, os, re, subprocess

VERIF = '/verif'
s = open(os.path.join(VERIF, 'DESIGN.md')).read()

# --- fixed findings
k = json.load(open(os.path.join(VERIF, 'known_findings.json')))['findings']
rows = {}
for f in k:
    if f['status'] == 'fixed':
        rows.setdefault((f['key'], f['commit'], f['description'], f['witness']), []).append(f['property'])
tbl = ["| properties | mechanism key | what failed | witness | fix commit |", "|---|---|---|---|---|"]
for kk, v in rows.items():
    tbl.append("| %s | `%s` | %s | %s | `%s` |" % (", ".join(sorted(v)), kk[0], kk[2].replace("|", "\\|"), kk[3].replace("|", "\\|"), kk[1]))
s = re.sub(r"<!-- FIXED-TABLE-START -->.*?<!-- FIXED-TABLE-END -->", lambda m: "<!-- FIXED-TABLE-START -->\n" + "\n".join(tbl) + "\n<!-- FIXED-TABLE-END -->", s, flags=re.S)

# --- seeded changes: results per seed from seeded/matrix-seed<N>.log (complete runs)
res = {}
seeds = []
for log in sorted(glob.glob(os.path.join(VERIF, 'seeded', 'matrix-seed*.log'))):
    sd = re.search(r"seed(\d+)", log).group(1)
    seeds.append(sd)
    for line in open(log):
        m = re.match(r"^(\S+)\s+(C\d+)\s+exit=(\d)\s+([\d.]+)s\s*(.*)$", line.rstrip())
        if m:
            res.setdefault((m.group(1), m.group(2)), {})[sd] = (m.group(3), m.group(5))
extra = json.load(open(os.path.join(VERIF, 'seeded', 'also-caught.json'))) if os.path.exists(os.path.join(VERIF, 'seeded', 'also-caught.json')) else {}
out = ["Seeds run: %s. A cell `n/m` = caught in n of the m seeded runs of the property's own quick check." % ", ".join(seeds), "",
       "| change | property | round | what it does | caught (seeds) | mechanism keys reported |", "|---|---|---|---|---|---|"]
n_all = n_own = 0
for d in sorted(glob.glob(os.path.join(VERIF, 'seeded', 'C*'))):
    name = os.path.basename(d)
    meta = json.load(open(os.path.join(d, 'meta.json')))
    pid = meta['property']
    r = res.get((name, pid), {})
    caught = sum(1 for v in r.values() if v[0] == '1')
    keys = next((v[1] for v in r.values() if v[0] == '1'), "")
    cell = "%d/%d" % (caught, len(r)) if r else "not run"
    note = extra.get(name, "")
    n_all += 1
    n_own += 1 if caught else 0
    summ = meta['summary'].replace('\n', ' ').replace('|', '\\|')
    out.append("| %s | %s | %s | %s | %s | %s |" % (name, pid, meta.get('round', 1), summ[:200] + ("…" if len(summ) > 200 else ""), cell,
                                                    ("`%s`" % keys[:100].replace('|', '\\|')) if keys else "") + (" " + note if note else "") + " |" if False else
               "| %s | %s | %s | %s | %s | %s |" % (name, pid, meta.get('round', 1), summ[:200] + ("…" if len(summ) > 200 else ""), cell,
                                                    (("`%s`" % keys[:100].replace('|', '\\|')) if keys else "") + ((" — " + note) if note else "")))
out.append("")
out.append("%d seeded changes; %d caught by their own property's quick check in at least one seeded run; the others by the check named in the last column (C16s by C03's concurrent part, added after round 10: section 9)." % (n_all, n_own))
out.append("")
out.append("Reverts of the fix commits (`seeded/reverts/<commit>.diff`):")
out.append("")
out.append("| revert of | property | caught (seeds) | mechanism keys reported |")
out.append("|---|---|---|---|")
for (name, pid), r in sorted(res.items()):
    if name.startswith('revert-'):
        caught = sum(1 for v in r.values() if v[0] == '1')
        keys = next((v[1] for v in r.values() if v[0] == '1'), "")
        out.append("| `%s` | %s | %d/%d | %s |" % (name[7:], pid, caught, len(r), ("`%s`" % keys[:120].replace('|', '\\|')) if keys else ""))
s = re.sub(r"<!-- SEEDED-TABLE-START -->.*?<!-- SEEDED-TABLE-END -->", lambda m: "<!-- SEEDED-TABLE-START -->\n" + "\n".join(out) + "\n<!-- SEEDED-TABLE-END -->", s, flags=re.S)
open(os.path.join(VERIF, 'DESIGN.md'), 'w').write(s)
print("tables refreshed:", len(rows), "fixed mechanisms;", n_all, "seeded changes;", "seeds", seeds)
