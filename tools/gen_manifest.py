"""Regenerate MANIFEST.json from the check modules (run with /venv/bin/python tools/gen_manifest.py)."""
import importlib
import json
import sys

sys.path[:0] = ['/verif', '/verif/.deps']
TECH = {
"C01": "reference-model monitor: real find()/finditer() nodelists vs an executable RFC 9535 model on generated query/document workloads",
"C02": "reference-model monitor on filter selection with a truth-table ledger (expression kind x child kind x outcome)",
"C03": "runtime acceptance monitor on compile(): valid-by-construction derivations and lexical sweeps; failures confirmed by an independent Earley recogniser",
"C04": "runtime rejection monitor on compile(): rule-violation operators, single edits, exhaustive short token sequences; acceptances classified by an independent Earley recogniser",
"C05": "runtime monitor on compile() with probe registries: outcome vs RFC 2.4.3 typing model, probe-call tripwire, position ledger",
"C06": "reference-model monitor over all ordered pairs of a value pool x 6 operators x comparand producers (486-cell kind table)",
"C07": "exhaustive small-scope grid + random differential against the RFC slice pseudo-code, observed at find()",
"C08": "per-node postcondition monitor (location walk by identity, normalized path, re-query) incl. Unicode member-name sweep",
"C09": "decode monitor at find(): every spelling of every code point in both positions; invalid-literal classes must be rejected",
"C10": "probe-function monitors recording exact argument objects + reference model for scripted results and built-ins",
"C11": "reference-model monitor: generated RFC 9485 pattern ASTs vs a back-tracking-free matcher; faulthandler + write-ahead log for native crashes",
"C12": "round-trip monitor: str() output recognised by an independent Earley parser, re-compiled, compared on documents and against the RFC model",
"C13": "totality monitor over hostile string workloads with sys.monitoring RAISE telemetry and crash attribution",
"C14": "history monitor: mutation-recording documents, solitary-run oracle (in-process and pristine process), cross-environment interference checks",
"C15": "entry-point agreement monitor over the 14 public call paths",
"C16": "schedule enumeration of next() interleavings + multi-thread stress with sys.monitoring LINE yield injection; solitary-run oracle",
"C17": "scripted-randomness monitor: choice-tree enumeration of the real evaluator vs the set of RFC-permitted orderings and a model of the documented queue algorithm",
"C18": "runtime monitor with a logical step budget over depth/cycle shapes in both modes under scripted randomness",
"C19": "error-position postcondition monitor on every rejected compile()",
"C20": "black-box CLI monitor: real subprocesses + in-process main(); output vs in-process find().values()",
}
COMMON = ("; all observed calls are subject to seeded host conditions (non-main thread, deep call stack, raised recursion limit, deep-copied / pickled "
          "compiled queries) and worker shards alternate between the plain interpreter, python -O and package-warnings-as-errors")
TECH["C01"] += "; concurrent part (threads with injected GIL hand-offs) and a stream of same-shaped wide documents"
TECH["C02"] += "; long flat chains evaluated from a band of call-stack depths"
TECH["C03"] += "; long-sweep of flat repetition forms"
TECH["C06"] += "; sequences of comparisons; deep comparands from a band of call-stack depths"
TECH["C07"] += "; arrays of thousands of elements; one compiled slice applied to many lengths"
TECH["C08"] += "; concurrent path()/paths()/items() with injected GIL hand-offs"
TECH["C12"] += "; concurrent str()/hash() on shared compiled queries"
TECH["C13"] += "; pumped strings and a repetition battery up to the 1024-character bound"
TECH["C17"] += "; linear-time membership test of the permitted orderings on wide documents"
TECH["C19"] += "; scale battery; concurrent rejected compiles on one environment"
checks = []
for i in range(1, 21):
    pid = "C%02d" % i
    mod = importlib.import_module("vf.checks." + pid.lower())
    checks.append({
        "property_id": pid,
        "quick_cmd": "./check %s --tier quick" % pid,
        "thorough_cmd": "./check %s --tier thorough" % pid,
        "evidence_file": "evidence/%s.json" % pid,
        "replay_cmd_template": "./check %s --replay {path}" % pid,
        "engine": "vf",
        "level_claimed": {"category": "exploration",
                          "text": "Held on the monitored executions of this run (counts, construct ledgers and samples are in the evidence file). Runtime monitoring does not discharge the universal quantifier; bounded sub-spaces that are enumerated completely are marked exhaustive for that space only. Workload and oracle: " + mod.RULE,
                          "design_ref": "DESIGN.md section 5 (%s)" % pid},
        "level_note": "; ".join(getattr(mod, "ASSUMPTIONS", [])),
        "technique": TECH[pid] + COMMON})
m = {"version": 1,
     "setup_cmd": "./setup.sh",
     "hooks": {"guard": "JSONPATH_RFC9535_VERIF",
               "enable": "no source hooks in /repo: monitors (wrappers, probe functions, sys.monitoring callbacks, scripted random) are attached by the harness; workers run /venv/bin/python with PYTHONPATH=/repo so the current working tree is what executes",
               "baseline_off_cmd": "cd /repo && /venv/bin/python -m pytest -ra -q -p no:cacheprovider --timeout=900 --continue-on-collection-errors",
               "source_commits": [], "add_only": True},
     "engines": [{"name": "vf", "path": "vf/", "serves_properties": ["C%02d" % i for i in range(1, 21)],
                  "kind_free_text": "runtime monitoring harness: AST-first workload generators, reference oracles (RFC 9535 semantics, Earley ABNF recogniser, typing, I-Regexp matcher, permitted-ordering sets), monitors attached to the real code, sharded subprocess runner with watchdogs"}],
     "checks": checks,
     "notes": "Exit codes: 0 held (possibly with KNOWN-FINDING lines), 1 VIOLATION, 2 inconclusive (deciding monitor not reached / ledger incomplete / watchdog), 3 internal error of the machinery. VERIF_SEED, VERIF_TIER, VERIF_REPO (default /repo) are honoured. known_findings.json lists open and fixed findings; seeded/ holds confirmed property-breaking changes and DESIGN.md section 10 says which checks catch them.",
     "not_applicable": []}
json.dump(m, open('/verif/MANIFEST.json', 'w'), indent=1)
import jsonschema
jsonschema.validate(m, json.load(open('/root/.vp/MANIFEST.schema.json')))
print("MANIFEST.json written and valid:", len(checks), "checks")
