#!/bin/sh
# usage: tools/try_mutant.sh <patch.diff> <check args...>
# Applies the patch in a scratch worktree of /repo (outside /repo and /verif), runs ./check with
# VERIF_REPO pointing there, removes the worktree afterwards.
set -u
patch=$(realpath "$1"); shift
wt=$(mktemp -d /tmp/vfmut.XXXXXX)
git -C /repo worktree add -q --detach "$wt" HEAD || exit 9
if ! git -C "$wt" apply "$patch"; then echo "PATCH-DOES-NOT-APPLY $patch"; git -C /repo worktree remove --force "$wt"; exit 9; fi
( cd /verif && VERIF_REPO="$wt" ./check "$@" )
rc=$?
git -C /repo worktree remove --force "$wt"
echo "exit=$rc"
exit $rc
