"""Emit the markdown table of seeded changes from seeded/*/meta.json and the matrix logs in seeded/matrix-*.log."""
import glob, json, os, re, sys
rows = {}
for log in sorted(glob.glob('/verif/seeded/matrix-*.log')):
    for line in open(log):
        m = re.match(r"^(\S+)\s+(C\d+)\s+exit=(\d)\s+([\d.]+)s\s*(.*)$", line.rstrip())
        if m:
            rows[(m.group(1), m.group(2))] = (m.group(3), m.group(5))
extra = json.load(open('/verif/seeded/also-caught.json')) if os.path.exists('/verif/seeded/also-caught.json') else {}
out = ["| change | property | round | what it does (one line) | needs | caught by quick check (mechanism keys) |", "|---|---|---|---|---|---|"]
for d in sorted(glob.glob('/verif/seeded/C*')):
    name = os.path.basename(d)
    meta = json.load(open(os.path.join(d, 'meta.json')))
    pid = meta['property']
    r = rows.get((name, pid))
    if r is None:
        caught = "not yet run"
    elif r[0] == '1':
        caught = "%s: `%s`" % (pid, r[1][:110].replace('|', '\\|'))
    else:
        caught = "**not by %s**" % pid
    if name in extra:
        caught += "; " + extra[name]
    s = meta['summary'].replace('\n', ' ').replace('|', '\\|')
    n = meta.get('needs', '').replace('\n', ' ').replace('|', '\\|')
    out.append("| %s | %s | %s | %s | %s | %s |" % (name, pid, meta.get('round', 1), s[:230] + ("…" if len(s) > 230 else ""), n[:160] + ("…" if len(n) > 160 else ""), caught))
out.append("")
out.append("Reverts of the fix commits (`seeded/reverts/<commit>.diff`):")
out.append("")
out.append("| revert of | property | caught by quick check (mechanism keys) |")
out.append("|---|---|---|")
for (name, pid), r in sorted(rows.items()):
    if name.startswith('revert-'):
        out.append("| `%s` | %s | %s |" % (name[7:], pid, ("`%s`" % r[1][:130].replace('|', '\\|')) if r[0] == '1' else "**not caught**"))
print("\n".join(out))
