"""Run each seeded change against the check(s) of the property it breaks; print a table.
usage: /venv/bin/python tools/matrix.py [--all-checks] [name ...]
"""
import json, os, subprocess, sys, glob, time

VERIF = "/verif"
known = json.load(open(os.path.join(VERIF, "known_findings.json")))["findings"]
by_commit = {}
for f in known:
    if f.get("commit"):
        by_commit.setdefault(f["commit"], set()).add(f["property"])

targets = []
for d in sorted(glob.glob(os.path.join(VERIF, "seeded", "C*"))):
    meta = json.load(open(os.path.join(d, "meta.json")))
    targets.append((os.path.basename(d), os.path.join(d, "patch.diff"), [meta["property"]]))
for p in sorted(glob.glob(os.path.join(VERIF, "seeded", "reverts", "*.diff"))):
    c = os.path.basename(p)[:-5]
    targets.append(("revert-" + c, p, sorted(by_commit.get(c, []))))
names = [a for a in sys.argv[1:] if not a.startswith("--")]
seed = next((a.split("=")[1] for a in sys.argv[1:] if a.startswith("--seed=")), "0")
if names:
    targets = [t for t in targets if t[0] in names]
rows = []
for name, patch, props in targets:
    for pid in props:
        t = time.time()
        p = subprocess.run([os.path.join(VERIF, "tools", "try_mutant.sh"), patch, pid, "--tier", "quick", "--seed", seed], capture_output=True, text=True)
        out = p.stdout
        keys = [l.split("mechanism=")[1].split(" occurrences")[0] for l in out.splitlines() if "mechanism=" in l]
        rc = [l for l in out.splitlines() if l.startswith("exit=")]
        rows.append((name, pid, rc[-1] if rc else "?", keys[:2], round(time.time() - t, 1)))
        print("%-18s %-4s %-7s %5.1fs %s" % rows[-1][:3] + ("",) if False else "%-18s %-4s %-7s %5.1fs %s" % (name, pid, rows[-1][2], rows[-1][4], "; ".join(keys[:2])[:150]), flush=True)
json.dump(rows, open("/tmp/matrix.json", "w"), indent=1)
