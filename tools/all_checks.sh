#!/bin/sh
# usage: tools/all_checks.sh [<tree>] [extra check args]   — runs the 20 quick checks against <tree> (default /repo)
tree="${1:-/repo}"; [ $# -gt 0 ] && shift
cd /verif
for i in 01 02 03 04 05 06 07 08 09 10 11 12 13 14 15 16 17 18 19 20; do
  VERIF_REPO="$tree" ./check C$i "$@" | grep -v "^KNOWN" | cut -c1-260 | tail -3
done
