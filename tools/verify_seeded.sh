#!/bin/sh
# usage: tools/verify_seeded.sh <dir with patch.diff demo.py meta.json>
# Confirms: patch applies to /repo HEAD, baseline suite passes with it, demo fails with it and passes without.
d="$1"
wt=$(mktemp -d /tmp/vfseed.XXXXXX)
git -C /repo worktree add -q --detach "$wt" HEAD || exit 9
cd "$wt"
PYTHONPATH="$wt" /venv/bin/python "$d/demo.py" >/dev/null 2>&1; base=$?
if ! git apply "$d/patch.diff" 2>/dev/null; then echo "$d: PATCH-DOES-NOT-APPLY"; git -C /repo worktree remove --force "$wt"; exit 9; fi
tests=$(/venv/bin/python -m pytest -q -p no:cacheprovider --timeout=900 --continue-on-collection-errors 2>&1 | tail -1)
PYTHONPATH="$wt" /venv/bin/python "$d/demo.py" >/dev/null 2>&1; mut=$?
cd /
git -C /repo worktree remove --force "$wt"
echo "$d: demo_without=$base demo_with=$mut tests='$tests'"
