#!/bin/sh
# Offline setup: third-party helpers for the harness go into the git-ignored .deps
set -e
cd "$(dirname "$0")"
if [ ! -d .deps/lark ] || [ ! -d .deps/icontract ]; then
  /venv/bin/pip install -q --no-index --find-links /opt/veriftools/wheels --target .deps icontract lark jsonschema >/dev/null 2>&1 || \
  /venv/bin/pip install --no-index --find-links /opt/veriftools/wheels --target .deps icontract lark jsonschema
fi
echo "setup ok"
