#!/bin/sh
# Offline setup: third-party helpers for the harness go into the git-ignored .deps
# (icontract, lark, jsonschema from the offline wheelhouse), then the oracles are
# cross-validated against the tables pinned by the repository's own tests.
cd "$(dirname "$0")"
if [ ! -d .deps/lark ] || [ ! -d .deps/icontract ]; then
  /venv/bin/pip install -q --no-index --find-links /opt/veriftools/wheels --target .deps icontract lark jsonschema >/dev/null 2>&1 || \
  /venv/bin/pip install --no-index --find-links /opt/veriftools/wheels --target .deps icontract lark jsonschema || exit 1
fi
./selfcheck || echo "WARNING: oracle cross-validation failed (see above); checks still run, treat their verdicts with care"
echo "setup ok"
