"""Worker process: executes one shard of one check against the real code under monitors."""
from __future__ import annotations

import faulthandler
import hashlib
import importlib
import json
import os
import signal
import sys
import time
from collections import Counter
from contextlib import contextmanager


class CaseTimeout(BaseException):
    """Raised by the per-case watchdog (wall clock => inconclusive, never a violation)."""


class Recorder:
    def __init__(self, hb_path, wal_path):
        self.evaluations = 0
        self.nontrivial = set()
        self.features = Counter()
        self.monitors = Counter()
        self.violations = []
        self.viol_counts = Counter()
        self.samples = []
        self.timeouts = []
        self.notes = []
        self.extra = {}
        self.exhaustive = None
        self._hb = hb_path
        self._wal = open(wal_path, "w", buffering=1) if wal_path else None
        self._last_hb = 0.0

    # -- bookkeeping
    def heartbeat(self, force=False):
        t = time.time()
        if force or t - self._last_hb > 1.0:
            self._last_hb = t
            try:
                os.utime(self._hb, None)
            except OSError:
                pass

    def wal(self, obj):
        """Write-ahead record of the case about to be executed."""
        if self._wal is not None:
            self._wal.seek(0)
            self._wal.truncate()
            self._wal.write(json.dumps(obj, default=repr)[:3000] + "\n")
        self.heartbeat()

    def case(self, key=None, nontrivial=False):
        self.evaluations += 1
        if nontrivial and key is not None:
            self.nontrivial.add(h64(key))
        if self.evaluations % 64 == 0:
            self.heartbeat()

    def monitor(self, name, n=1):
        self.monitors[name] += n

    def feat(self, tag, n=1):
        self.features[tag] += n

    def sample(self, obj, limit=6):
        if len(self.samples) < limit:
            self.samples.append(obj)

    def violation(self, key, witness, limit_per_key=3):
        self.viol_counts[key] += 1
        if self.viol_counts[key] <= limit_per_key:
            try:
                from . import mon as _mon
                cond = _mon.HOST.get("last")
                if cond and isinstance(witness, dict) and "host_condition" not in witness:
                    witness = dict(witness, host_condition_of_last_observed_call=list(cond))
            except Exception:  # noqa: BLE001
                pass
            self.violations.append({"key": key, "witness": witness})

    def timeout(self, case):
        self.timeouts.append(case if isinstance(case, (str, int, float, type(None))) else json.loads(json.dumps(case, default=repr))[:1] if isinstance(case, list) else str(case)[:300])

    def note(self, s):
        if len(self.notes) < 20:
            self.notes.append(s)

    def dump(self):
        return {
            "evaluations": self.evaluations,
            "nontrivial": sorted(self.nontrivial),
            "features": dict(self.features),
            "monitors": dict(self.monitors),
            "violations": self.violations,
            "violation_counts": dict(self.viol_counts),
            "samples": self.samples,
            "timeouts": self.timeouts,
            "notes": self.notes,
            "extra": self.extra,
            "exhaustive": self.exhaustive,
        }


def h64(key):
    if not isinstance(key, (str, bytes)):
        key = repr(key)
    if isinstance(key, str):
        key = key.encode("utf-8", "surrogatepass")
    return int.from_bytes(hashlib.blake2b(key, digest_size=8).digest(), "big")


def _alarm(signum, frame):
    raise CaseTimeout()


@contextmanager
def guard(seconds):
    """Per-case wall-clock watchdog for pure-Python code (main thread only)."""
    old = signal.signal(signal.SIGALRM, _alarm)
    signal.setitimer(signal.ITIMER_REAL, seconds)
    try:
        yield
    finally:
        signal.setitimer(signal.ITIMER_REAL, 0)
        signal.signal(signal.SIGALRM, old)


def jsonable(x, depth=0):
    """Make witnesses JSON-serialisable without losing type information."""
    if depth > 60:
        return "<deep>"
    if x is None or isinstance(x, (bool, int, str)):
        return x
    if isinstance(x, float):
        if x != x or x in (float("inf"), float("-inf")):
            return repr(x)
        return x
    if isinstance(x, (list, tuple)):
        return [jsonable(y, depth + 1) for y in x]
    if isinstance(x, dict):
        return {str(k): jsonable(v, depth + 1) for k, v in x.items()}
    return repr(x)


def main():
    check, spec_path, out_path, hb_path, wal_path = sys.argv[1:6]
    faulthandler.enable()
    sys.setrecursionlimit(max(sys.getrecursionlimit(), 1000))
    spec = json.load(open(spec_path))
    repo = os.environ.get("VERIF_REPO", "/repo")
    mod = importlib.import_module("vf.checks.%s" % check.lower())
    if getattr(mod, "PRE_IMPORT", None):
        mod.PRE_IMPORT(spec)
    import jsonpath_rfc9535
    where = os.path.abspath(jsonpath_rfc9535.__file__)
    if not where.startswith(os.path.abspath(repo) + os.sep):
        print("jsonpath_rfc9535 imported from %s, expected under %s" % (where, repo))
        sys.exit(3)
    rec = Recorder(hb_path, wal_path)
    imode = os.environ.get("VERIF_INTERPRETER_MODE", "plain")
    if imode == "package-warnings-are-errors":
        import warnings
        warnings.filterwarnings("error", module=r"jsonpath_rfc9535(\..*)?$")
    rec.features["interpreter:" + imode + (":asserts-removed" if not __debug__ else "")] += 1
    if spec.get("kind") == "replay":
        mod.replay(spec["case"], rec)
    else:
        hc = getattr(mod, "HOST_CONDITIONS", (0.01, 0.01, 0.01))
        if hc and os.environ.get("VERIF_HOST_CONDITIONS", "1") != "0":
            from . import mon as _mon
            _mon.host_init(spec.get("seed", "0"), *hc)
        mod.run_shard(spec, rec)
        if hc:
            from . import mon as _mon
            for k_, v_ in _mon.HOST["counts"].items():
                rec.features[k_] += v_
    rec.heartbeat(True)
    with open(out_path + ".tmp", "w") as f:
        json.dump(rec.dump(), f, default=repr)
    os.replace(out_path + ".tmp", out_path)


if __name__ == "__main__":
    main()
