"""Driver: plan shards, run them in worker subprocesses under watchdogs, merge the
monitors' observations, attribute violations to known findings, write evidence and
replay files, and exit with the verdict (0 held / 1 violation / 2 inconclusive / 3 internal).
"""
from __future__ import annotations

import argparse
import hashlib
import importlib
import json
import os
import subprocess
import sys
import tempfile
import time
from collections import Counter

VERIF = os.path.dirname(os.path.dirname(os.path.abspath(__file__)))
DEPS = os.path.join(VERIF, ".deps")
PY = "/venv/bin/python"
WHEELS = "/opt/veriftools/wheels"


def ensure_deps():
    if os.path.isdir(os.path.join(DEPS, "lark")) and os.path.isdir(os.path.join(DEPS, "icontract")):
        return
    subprocess.run([PY, "-m", "pip", "install", "-q", "--no-index", "--find-links", WHEELS, "--target", DEPS,
                    "icontract", "lark", "jsonschema"], check=True, stdout=subprocess.DEVNULL, stderr=subprocess.DEVNULL)


def repo_path():
    return os.path.abspath(os.environ.get("VERIF_REPO", "/repo"))


def worker_env(seed):
    env = dict(os.environ)
    env["PYTHONPATH"] = os.pathsep.join([repo_path(), VERIF, DEPS])
    env["PYTHONDONTWRITEBYTECODE"] = "1"
    env["PYTHONHASHSEED"] = "0"
    env["JSONPATH_RFC9535_VERIF"] = "1"
    env["VERIF_REPO"] = repo_path()
    env.pop("PYTHONSTARTUP", None)
    return env


def repo_state():
    rp = repo_path()
    try:
        head = subprocess.run(["git", "-C", rp, "rev-parse", "HEAD"], capture_output=True, text=True).stdout.strip()
        dirty = bool(subprocess.run(["git", "-C", rp, "status", "--porcelain", "--untracked-files=no"], capture_output=True, text=True).stdout.strip())
    except Exception:
        head, dirty = "unknown", False
    return {"path": rp, "head": head, "dirty": dirty}


def load_known():
    p = os.path.join(VERIF, "known_findings.json")
    if not os.path.exists(p):
        return []
    return json.load(open(p))["findings"]


def run_shards(check, specs, tier, nproc, stall_s, log=None):
    """Run each spec in its own worker process, at most nproc at a time."""
    tmp = tempfile.mkdtemp(prefix="vf_%s_" % check, dir=os.environ.get("VERIF_TMP"))
    pending = list(enumerate(specs))
    running = {}
    results = []
    failures = []
    try:
        while pending or running:
            while pending and len(running) < nproc:
                i, spec = pending.pop(0)
                sf = os.path.join(tmp, "spec_%d.json" % i)
                of = os.path.join(tmp, "out_%d.json" % i)
                hb = os.path.join(tmp, "hb_%d" % i)
                wal = os.path.join(tmp, "wal_%d" % i)
                json.dump(spec, open(sf, "w"))
                open(hb, "w").close()
                errf = open(os.path.join(tmp, "err_%d.txt" % i), "wb")
                # the interpreter the library is used under varies by shard: plain, python -O (assert statements and
                # __debug__ blocks removed), and warnings raised by the package turned into errors
                mode = ("plain", "optimized", "plain", "package-warnings-are-errors")[i % 4] if os.environ.get("VERIF_INTERPRETER_MODES", "1") != "0" else "plain"
                wenv = worker_env(spec.get("seed", 0))
                wenv["VERIF_INTERPRETER_MODE"] = mode
                p = subprocess.Popen([PY] + (["-O"] if mode == "optimized" else []) + ["-X", "faulthandler", "-m", "vf.worker", check, sf, of, hb, wal],
                                     cwd=VERIF, env=wenv, stdout=errf, stderr=subprocess.STDOUT)
                running[i] = (p, spec, of, hb, wal, errf, time.time())
            time.sleep(0.05)
            for i in list(running):
                p, spec, of, hb, wal, errf, t0 = running[i]
                rc = p.poll()
                if rc is None:
                    try:
                        age = time.time() - max(os.path.getmtime(hb), t0)
                    except OSError:
                        age = 0
                    if age > stall_s:
                        # SIGABRT first: the worker's faulthandler then writes the stacks of all its threads to its stderr file
                        import signal as _signal
                        try:
                            p.send_signal(_signal.SIGABRT)
                            p.wait(10)
                        except Exception:  # noqa: BLE001
                            pass
                        p.kill()
                        p.wait()
                        errf.close()
                        last = _last_wal(wal)
                        try:
                            err = open(os.path.join(tmp, "err_%d.txt" % i), "rb").read().decode("utf-8", "replace")[-6000:]
                        except OSError:
                            err = ""
                        failures.append({"shard": i, "kind": "stalled", "spec": spec, "last_case": last, "stderr": err})
                        del running[i]
                    continue
                errf.close()
                del running[i]
                if rc == 0 and os.path.exists(of):
                    results.append(json.load(open(of)))
                else:
                    err = open(os.path.join(tmp, "err_%d.txt" % i), "rb").read().decode("utf-8", "replace")[-3000:]
                    failures.append({"shard": i, "kind": "died", "rc": rc, "spec": spec, "last_case": _last_wal(wal), "stderr": err})
    finally:
        for i in list(running):
            running[i][0].kill()
        import shutil
        shutil.rmtree(tmp, ignore_errors=True)
    return results, failures


def _last_wal(path):
    try:
        with open(path, "rb") as f:
            data = f.read()[-4000:]
        lines = [l for l in data.decode("utf-8", "replace").splitlines() if l.strip()]
        return lines[-1] if lines else None
    except OSError:
        return None


def merge(results):
    m = {"evaluations": 0, "nontrivial": set(), "features": Counter(), "monitors": Counter(), "violations": [],
         "samples": [], "timeouts": [], "notes": [], "extra": {}, "exhaustive": None}
    for r in results:
        m["evaluations"] += r["evaluations"]
        m["nontrivial"].update(r["nontrivial"])
        m["features"].update(r["features"])
        m["monitors"].update(r["monitors"])
        m["violations"].extend(r["violations"])
        m["samples"].extend(r["samples"][:3])
        m["timeouts"].extend(r["timeouts"])
        m["notes"].extend(r["notes"])
        for k, v in r.get("extra", {}).items():
            if isinstance(v, (int, float)):
                m["extra"][k] = m["extra"].get(k, 0) + v
            elif isinstance(v, list):
                m["extra"].setdefault(k, []).extend(v)
            elif isinstance(v, dict):
                d = m["extra"].setdefault(k, {})
                for kk, vv in v.items():
                    d[kk] = d.get(kk, 0) + vv if isinstance(vv, (int, float)) else vv
        if r.get("exhaustive") is not None:
            m["exhaustive"] = r["exhaustive"] if m["exhaustive"] is None else (m["exhaustive"] and r["exhaustive"])
    return m


def main(argv=None):
    ap = argparse.ArgumentParser(prog="check")
    ap.add_argument("property")
    ap.add_argument("--tier", default=os.environ.get("VERIF_TIER", "quick"), choices=["quick", "thorough"])
    ap.add_argument("--seed", type=int, default=int(os.environ.get("VERIF_SEED", "0") or 0))
    ap.add_argument("--replay")
    ap.add_argument("--workers", type=int, default=int(os.environ.get("VERIF_WORKERS", "0") or 0))
    ap.add_argument("--scale", type=float, default=float(os.environ.get("VERIF_SCALE", "1") or 1))
    a = ap.parse_args(argv)
    pid = a.property.upper()
    t0 = time.time()
    try:
        ensure_deps()
    except Exception as e:  # pragma: no cover
        print("INTERNAL-ERROR property=%s could not install helper wheels: %s" % (pid, e))
        return 3
    sys.path[:0] = [VERIF, DEPS]
    mod = importlib.import_module("vf.checks.%s" % pid.lower())
    nproc = a.workers or min(16, os.cpu_count() or 4)

    if a.replay:
        case = json.load(open(a.replay))
        specs = [{"kind": "replay", "case": case["case"], "seed": case.get("seed", 0)}]
    else:
        specs = mod.plan(a.tier, a.seed, nproc, a.scale)
    stall = getattr(mod, "STALL_S", 240 if a.tier == "quick" else 900)
    results, failures = run_shards(pid, specs, a.tier, nproc, stall)
    m = merge(results)
    wall = time.time() - t0

    known = [k for k in load_known() if k["property"] == pid]
    open_keys = {k["key"]: k for k in known if k["status"] == "open"}

    # group violations by mechanism key
    by_key = {}
    for v in m["violations"]:
        by_key.setdefault(v["key"], []).append(v)
    unlisted = {k: vs for k, vs in by_key.items() if k not in open_keys}
    listed = {k: vs for k, vs in by_key.items() if k in open_keys}

    # worker deaths: a crash (signal) while executing a case is a witness for totality-type
    # properties; the check module decides; default: internal error
    internal = []
    inconclusive = []
    for f in failures:
        handler = getattr(mod, "on_worker_failure", None)
        verdict = handler(f) if handler else None
        if verdict and verdict[0] == "violation":
            unlisted.setdefault(verdict[1], []).append({"key": verdict[1], "witness": verdict[2]})
        elif f["kind"] == "stalled":
            inconclusive.append("worker stalled (watchdog) on case %s; stacks: %s" % (f.get("last_case"), " | ".join(l.strip() for l in (f.get("stderr") or "").splitlines() if l.strip())[-1800:]))
        else:
            internal.append("worker died rc=%s: %s" % (f.get("rc"), (f.get("stderr") or "")[-1500:]))

    for mon in getattr(mod, "DECIDING_MONITORS", []):
        if not a.replay and m["monitors"].get(mon, 0) == 0:
            inconclusive.append("deciding monitor %s evaluated 0 times" % mon)
    if not a.replay:
        fin = getattr(mod, "finish", None)
        if fin:
            for reason in fin(m, a.tier) or []:
                inconclusive.append(reason)
        if len(m["nontrivial"]) < 2:
            inconclusive.append("fewer than 2 distinct non-trivial cases")
        if m["timeouts"] and len(m["timeouts"]) > max(5, m["evaluations"] // 100):
            inconclusive.append("%d cases hit the per-case watchdog" % len(m["timeouts"]))

    # output
    rdir = os.path.join(VERIF, "evidence", "replay", pid)
    if os.environ.get("VERIF_REPLAY_DIR"):
        rdir = os.path.join(os.environ["VERIF_REPLAY_DIR"], pid)
    lines = []
    for k, vs in sorted(listed.items()):
        lines.append("KNOWN-FINDING: property=%s %s: %s (observed %d times this run)" % (pid, k, open_keys[k]["description"], len(vs)))
    for k, vs in sorted(unlisted.items()):
        os.makedirs(rdir, exist_ok=True)
        w = vs[0]
        h = hashlib.sha256(json.dumps([k, w.get("witness")], sort_keys=True, default=repr).encode()).hexdigest()[:16]
        path = os.path.join(rdir, "%s.json" % h)
        json.dump({"property": pid, "key": k, "seed": a.seed, "tier": a.tier, "case": w.get("witness"), "count": len(vs),
                   "repo": repo_state()}, open(path, "w"), indent=1, default=repr)
        lines.append("VIOLATION property=%s replay=%s" % (pid, path))
        lines.append("  mechanism=%s occurrences=%d witness=%s" % (k, len(vs), json.dumps(w.get("witness"), default=repr)[:600]))
    for r in inconclusive:
        lines.append("INCONCLUSIVE property=%s reason=%s" % (pid, r))
    for r in internal:
        lines.append("INTERNAL-ERROR property=%s %s" % (pid, r))

    if not a.replay:
        cov = {
            "evaluations": m["evaluations"],
            "distinct_nontrivial": len(m["nontrivial"]),
            "rule": getattr(mod, "RULE", ""),
            "samples": m["samples"][:12],
            "monitor_evaluations": dict(m["monitors"]),
            "feature_ledger": dict(sorted(m["features"].items())),
            "distinct_features": len(m["features"]),
            "per_case_watchdog_timeouts": len(m["timeouts"]),
            "worker_failures": [{k: v for k, v in f.items() if k != "spec"} for f in failures][:5],
            "known_findings_observed": {k: len(v) for k, v in listed.items()},
            "unlisted_violation_mechanisms": sorted(unlisted),
            "shards": len(specs),
            "repo": repo_state(),
            "notes": m["notes"][:20],
        }
        cov.update(m["extra"])
        if m["exhaustive"] is not None:
            cov["exhaustive"] = bool(m["exhaustive"])
        ev = {"property_id": pid, "tier": a.tier, "seed": a.seed, "level": "exploration", "coverage": cov,
              "assumptions": getattr(mod, "ASSUMPTIONS", []), "wall_s": round(wall, 2),
              "violations": sum(len(v) for v in unlisted.values())}
        # evidence for /repo itself goes to evidence/<id>.json; runs against another tree (VERIF_REPO, used to try
        # seeded changes in scratch worktrees) must not overwrite it
        edir = os.path.join(VERIF, "evidence") if repo_path() == "/repo" else os.path.join(VERIF, "evidence", "other-tree")
        os.makedirs(edir, exist_ok=True)
        json.dump(ev, open(os.path.join(edir, "%s.json" % pid), "w"), indent=1, default=repr, sort_keys=False)

    for l in lines:
        print(l)
    status = "held"
    code = 0
    if unlisted:
        status, code = "VIOLATED", 1
    elif internal:
        status, code = "internal-error", 3
    elif inconclusive:
        status, code = "inconclusive", 2
    print("%s %s tier=%s seed=%d: %s on %d evaluations, %d distinct non-trivial, %d monitor events, %.1fs"
          % (pid, "replay" if a.replay else "check", a.tier, a.seed, status, m["evaluations"], len(m["nontrivial"]),
             sum(m["monitors"].values()), wall))
    return code


if __name__ == "__main__":
    sys.exit(main())
