"""C09 — string literals and member names decode exactly as RFC 9535 specifies."""
from __future__ import annotations

import itertools
import random

from ..oracle import strings as S
from .. import mon
from ..worker import jsonable

PROPERTY = "C09"
RULE = ("per code point (quick: U+0000-U+07FF, surrogate-neighbourhood and plane boundaries, 4000 sampled; thorough: every Unicode scalar "
        "value) each legal spelling — raw where 'unescaped' allows it, \\uXXXX in lower/upper/mixed hex case, surrogate-pair escapes "
        "(lower/upper/mixed), the named escapes \\b \\f \\n \\r \\t \\/ \\\\ and the escaped own quote — in both quote styles and in both "
        "positions (name selector: find(\"$[t]\", {s: 1}) must select exactly member s; comparison literal: find(\"$[?@ == t]\", [s, s+'x']) "
        "must select exactly index 0), batched 48 literals per query and re-run one by one on a mismatch; random sequences of spellings "
        "(length <= 12); and invalid literals of each class (every raw C0 control, every unknown escape letter, \\u truncated to 0-3 digits "
        "in the middle and at the end of the literal, the other quote escaped, lone high / lone low surrogate escapes, high followed by a "
        "non-low escape, all 10x10 pairs over the surrogate boundary set) must be rejected with a JSONPathError. Oracle: the RFC's "
        "string-literal derivation (vf/oracle/strings.py). Non-trivial: an escaped spelling or a rejected literal; distinct by literal text."
        " After every rejected literal a sentinel literal is decoded on the same environment, and every sequence batch is evaluated twice (re-compiling the same text must decode the same).")
ASSUMPTIONS = ["literal spellings enumerated from the RFC 9535 'string-literal' ABNF", "lone surrogates as raw characters are out of domain"]
DECIDING_MONITORS = ["M-find", "M-compile-invalid"]

BOUNDARY = [0xD7FF, 0xD800, 0xD801, 0xDBFE, 0xDBFF, 0xDC00, 0xDC01, 0xDFFE, 0xDFFF, 0xE000]


def mixed_case(R, text):
    return "".join(c.upper() if c in "abcdef" and R.random() < 0.5 else c for c in text) if text.startswith("\\u") else text


def lit(quote, body):
    return quote + body + quote


def batch_names(jp, rec, items):
    """items: list of (literal text, decoded string). One query `$[t1,...,tn]` on {s_i: i}."""
    doc = {}
    for _, s in items:
        doc.setdefault(s, [len(doc)])
    query = "$[" + ",".join(t for t, _ in items) + "]"
    o = mon.observe(jp.find, query, doc)
    rec.monitor("M-find")
    if o[0] == "ok" and [(n.location, id(n.value)) for n in o[1]] == [((s,), id(doc[s])) for _, s in items]:
        return []
    bad = []
    for t, s in items:
        d = {s: [1], s + "x": [2], "x" + s: [3]}
        o = mon.observe(jp.find, "$[%s]" % t, d)
        rec.monitor("M-find")
        if o[0] != "ok":
            bad.append((t, s, "name", mon.describe_outcome(o)))
        elif [(n.location, id(n.value)) for n in o[1]] != [((s,), id(d[s]))]:
            bad.append((t, s, "name", [jsonable(list(n.location)) for n in o[1]]))
    if not bad:
        bad.append((query[:300], "<batch>", "name-batch-only", mon.describe_outcome(o) if o[0] != "ok" else "batch result differs but single literals pass"))
    return bad


def batch_compare(jp, rec, items):
    doc = []
    for _, s in items:
        doc += [s, s + "x"]
    query = "$[" + ",".join("?@==%s" % t if i % 2 else "?%s==@" % t for i, (t, _) in enumerate(items)) + "]"
    want = []
    for _, s in items:
        want += [(j,) for j, v in enumerate(doc) if v == s]
    o = mon.observe(jp.find, query, doc)
    rec.monitor("M-find")
    if o[0] == "ok" and [n.location for n in o[1]] == want:
        return []
    bad = []
    for t, s in items:
        d = [s, s + "x", "x" + s, s[:-1] if s else "y"]
        o = mon.observe(jp.find, "$[?@ == %s]" % t, d)
        rec.monitor("M-find")
        exp = [(j,) for j, v in enumerate(d) if v == s]
        if o[0] != "ok":
            bad.append((t, s, "compare", mon.describe_outcome(o)))
        elif [n.location for n in o[1]] != exp:
            bad.append((t, s, "compare", [jsonable(list(n.location)) for n in o[1]]))
    if not bad:
        bad.append((query[:300], "<batch>", "compare-batch-only", "batch result differs but single literals pass"))
    return bad


def report(rec, bad):
    for t, s, pos, obs in bad:
        cps = [hex(ord(c)) for c in s][:6] if s != "<batch>" else []
        rec.violation("decode:%s" % pos, {"literal": t, "expected_codepoints": cps, "position": pos, "observed": obs})


def plan(tier, seed, nproc, scale):
    shards = nproc if tier == "quick" else nproc * 4
    specs = []
    if tier == "quick":
        for i in range(8):
            specs.append({"kind": "cps", "seed": "%d/c%d" % (seed, i), "lo": i * 0x100, "hi": (i + 1) * 0x100})
        specs.append({"kind": "cps-sample", "seed": "%d/s" % seed, "n": int(4000 * scale)})
    else:
        chunks = 256
        span = 0x110000 // chunks
        for i in range(chunks):
            specs.append({"kind": "cps", "seed": "%d/c%d" % (seed, i), "lo": i * span, "hi": (i + 1) * span})
    n = int((8000 if tier == "quick" else 300000) * scale)
    for i in range(shards):
        specs.append({"kind": "sequences", "seed": "%d/q%d" % (seed, i), "n": n // shards})
    specs.append({"kind": "invalid", "seed": "%d/i" % seed, "surrogate_samples": 2000 if tier == "quick" else 60000})
    return specs


def run_shard(spec, rec):
    import jsonpath_rfc9535 as jp
    R = random.Random(spec["seed"])
    kind = spec["kind"]
    if kind in ("cps", "cps-sample"):
        if kind == "cps":
            cps = [c for c in range(spec["lo"], spec["hi"]) if not 0xD800 <= c <= 0xDFFF]
            rec.exhaustive = True
        else:
            edges = [0x7f, 0x80, 0x7ff, 0x800, 0xfff, 0x2028, 0x2029, 0xd7ff, 0xe000, 0xfffd, 0xfffe, 0xffff, 0x10000, 0x10001, 0x1f600, 0x1ffff, 0x20000,
                     0x2ffff, 0x30000, 0xe0000, 0xeffff, 0xf0000, 0xfffff, 0x100000, 0x10fffe, 0x10ffff] + [p * 0x10000 for p in range(1, 17)] + [p * 0x10000 + 0xffff for p in range(1, 17)]
            cps = sorted(set(edges + [R.randrange(0x800, 0xD800) for _ in range(spec["n"] // 3)] + [R.randrange(0xE000, 0x110000) for _ in range(spec["n"])]))
        items = []
        for c in cps:
            ch = chr(c)
            for q in "'\"":
                for tag, sp in S.spellings(ch, q):
                    variants = [sp]
                    if tag.startswith("u-") or tag.startswith("pair"):
                        variants.append(mixed_case(R, sp.lower()))
                    for v in variants:
                        # alone, and embedded between ordinary characters
                        items.append((lit(q, v), ch, tag))
                        items.append((lit(q, "a" + v + "z"), "a" + ch + "z", tag))
            rec.case(("cp", c), True)
        B = 48
        for i in range(0, len(items), B):
            chunk = items[i:i + B]
            rec.wal({"literals": [t for t, _, _ in chunk[:3]]})
            pairs = [(t, s) for t, s, _ in chunk]
            report(rec, batch_names(jp, rec, pairs))
            report(rec, batch_compare(jp, rec, pairs))
            for _, _, tag in chunk:
                rec.feat("spelling:" + tag)
            rec.evaluations += len(chunk)
        rec.sample({"literals": [t for t, _, _ in items[:6]]}, limit=2)
    elif kind == "sequences":
        pool = [chr(c) for c in list(range(0, 0x30)) + [0x5c, 0x7f, 0x80, 0x85, 0x9f, 0xa0, 0xe9, 0x2028, 0xd7ff, 0xe000, 0xfeff, 0xfffe, 0xfffd, 0xffff, 0x10000, 0x1f600, 0x10ffff,
                                                          0xfeff, 0xfffe, 0x1f600, 0x10000]] + list("ab'\"/\\")
        batch = []
        for _ in range(spec["n"]):
            q = R.choice("'\"")
            s = "".join(R.choice(pool) for _ in range(R.randint(0, 12)))
            if R.random() < 0.1:
                s = R.choice("\ufeff\ufffe") + s + R.choice("\U0001f600\U00010000")   # byte-order-mark look-alikes first, an astral character later
            body = []
            escaped = False
            for ch in s:
                opts = S.spellings(ch, q)
                tag, sp = R.choice(opts)
                escaped = escaped or tag != "raw"
                body.append(mixed_case(R, sp) if R.random() < 0.3 else sp)
                rec.feat("spelling:" + tag)
            t = lit(q, "".join(body))
            batch.append((t, s))
            rec.case(t, escaped)
            if escaped:
                rec.sample({"literal": t, "decodes_to_codepoints": [hex(ord(c)) for c in s]}, limit=4)
            if len(batch) == 32:
                for _rep in range(2):   # twice: compiling the same text again must give the same decoding
                    report(rec, batch_names(jp, rec, batch))
                    report(rec, batch_compare(jp, rec, batch))
                batch = []
        if batch:
            report(rec, batch_names(jp, rec, batch))
            report(rec, batch_compare(jp, rec, batch))
    else:
        invalid(jp, rec, R, spec)


def invalid(jp, rec, R, spec):
    cases = []
    for q in "'\"":
        other = '"' if q == "'" else "'"
        for c in range(0x20):
            cases.append(("raw-control", lit(q, chr(c))))
            cases.append(("raw-control", lit(q, "ab" + chr(c) + "c")))
        for c in range(0x21, 0x7f):
            ch = chr(c)
            if ch in "bfnrtu/\\" or ch == q:
                continue
            cases.append(("unknown-escape", lit(q, "\\" + ch)))
            cases.append(("unknown-escape", lit(q, "a\\" + ch + "b")))
        for ch in ["é", "\U0001F600", " ", "\n", "\x00", "U", "N", "x", "0", "1"]:
            cases.append(("unknown-escape", lit(q, "\\" + ch)))
        cases.append(("other-quote-escaped", lit(q, "\\" + other)))
        cases.append(("other-quote-escaped", lit(q, "a\\" + other + "b")))
        for digits in ["", "0", "00", "004", "12F", "g000", "00g0", "000g", "+041", " 041", "0x41", "0_41", "-041", "００４１"]:
            cases.append(("truncated-or-bad-u", lit(q, "\\u" + digits)))
            cases.append(("truncated-or-bad-u", lit(q, "a\\u" + digits)))
            if len(digits) < 4:
                cases.append(("truncated-or-bad-u", lit(q, "\\u" + digits + "z")))
                cases.append(("truncated-or-bad-u", lit(q, "\\u" + digits + " 1")))
        cases.append(("dangling-backslash", q + "abc\\"))
        for hi in [0xD800, 0xD83D, 0xDBFF]:
            cases.append(("lone-high-surrogate", lit(q, "\\u%04x" % hi)))
            cases.append(("lone-high-surrogate", lit(q, "\\u%04X" % hi + "a")))
            cases.append(("lone-high-surrogate", lit(q, "\\u%04x\\n" % hi)))
            cases.append(("lone-high-surrogate", lit(q, "\\u%04x\\u0041" % hi)))
            cases.append(("lone-high-surrogate", lit(q, "\\u%04x\\u" % hi)))
            cases.append(("lone-high-surrogate", lit(q, "\\u%04x\\udc0" % hi)))
            cases.append(("lone-high-surrogate", lit(q, "\\u%04x\\\\udc00" % hi)))
            cases.append(("lone-high-surrogate", lit(q, "\\u%04xudc00" % hi)))
            # whatever the next two characters are (other than backslash + u), four hex digits after them do not make a pair
            for c1 in ["\\", "u", "n", "-", "x", " ", "U", "/", "d", "t"]:
                for c2 in ["\\", "u", "n", "-", "x", " ", "U", "/", "d", "t"]:
                    if (c1, c2) != ("\\", "u"):
                        cases.append(("lone-high-surrogate", lit(q, "\\u%04x%s%sDE00" % (hi, c1, c2))))
                        cases.append(("lone-high-surrogate", lit(q, "a\\u%04X%s%sdc00z" % (hi, c1, c2))))
        for lo in [0xDC00, 0xDE00, 0xDFFF]:
            cases.append(("lone-low-surrogate", lit(q, "\\u%04x" % lo)))
            cases.append(("lone-low-surrogate", lit(q, "a\\u%04Xb" % lo)))
            cases.append(("lone-low-surrogate", lit(q, "\\u%04x\\ud800" % lo)))
    # the same classes at the end of (and inside) very long literals
    for q in "'\"":
        other = '"' if q == "'" else "'"
        for n_ in (1023, 1024, 1025, 5000):
            pad = ("ghijklmnop" * (n_ // 10 + 1))[:n_]   # no hex digits: a pad must not complete a truncated escape
            for cls, body in [("lone-high-surrogate", "\\uD800"), ("lone-high-surrogate", "\\ud83d\\u0041"), ("lone-low-surrogate", "\\uDE00\\uD83D"), ("lone-low-surrogate", "\\udc00"),
                              ("unknown-escape", "\\x"), ("unknown-escape", "\\a"), ("raw-control", "\x01"), ("raw-control", "\n"), ("truncated-or-bad-u", "\\u12"),
                              ("other-quote-escaped", "\\" + other), ("dangling-backslash", "\\")]:
                if cls == "dangling-backslash":
                    cases.append((cls + ":long", q + pad + "\\"))
                    continue
                cases.append((cls + ":long", lit(q, pad + body)))
                cases.append((cls + ":long", lit(q, body + pad)))
                cases.append((cls + ":long", lit(q, pad[:n_ // 2] + body + pad[n_ // 2:])))
    valid = []
    for a, b in itertools.product(BOUNDARY, BOUNDARY):
        hi_a, lo_a = 0xD800 <= a <= 0xDBFF, 0xDC00 <= a <= 0xDFFF
        hi_b, lo_b = 0xD800 <= b <= 0xDBFF, 0xDC00 <= b <= 0xDFFF
        body = "\\u%04x\\u%04X" % (a, b)
        if hi_a and lo_b:
            valid.append(("'%s'" % body, chr(0x10000 + ((a - 0xD800) << 10) + (b - 0xDC00))))
        elif not (hi_a or lo_a) and not (hi_b or lo_b):
            valid.append(("'%s'" % body, chr(a) + chr(b)))
        else:
            cases.append(("surrogate-boundary-pair", "'%s'" % body))
    for _ in range(spec["surrogate_samples"]):
        a, b = R.randrange(0xD800, 0xDC00), R.randrange(0xDC00, 0xE000)
        valid.append(('"\\u%04x\\u%04x"' % (a, b), chr(0x10000 + ((a - 0xD800) << 10) + (b - 0xDC00))))
    for i in range(0, len(valid), 48):
        chunk = valid[i:i + 48]
        report(rec, batch_names(jp, rec, chunk))
        report(rec, batch_compare(jp, rec, chunk))
        for t, _ in chunk:
            rec.case(t, True)
        rec.feat("surrogate-pairs-valid", len(chunk))
    # escaped backslash directly followed by a letter that would itself be an escape, no \\u anywhere in the literal
    battery = []
    for q in "'\"":
        for letter in "bfnrtu/0x" + q:
            for pre, post in (("", ""), ("x", "y"), ("\\n", "\\t"), ("\\\\", "\\\\")):
                body = pre + "\\\\" + (("\\" + letter) if letter == q else letter) + post
                dec = (pre.replace("\\n", "\n").replace("\\\\", "\\") + "\\" + letter + post.replace("\\t", "\t").replace("\\\\", "\\"))
                battery.append((q + body + q, dec))
    for i in range(0, len(battery), 16):
        chunk = battery[i:i + 16]
        report(rec, batch_names(jp, rec, chunk))
        report(rec, batch_compare(jp, rec, chunk))
        for t, _ in chunk:
            rec.case(t, True)
        rec.feat("escaped-backslash-battery", len(chunk))
    for cls, t in cases:
        for tmpl in ("$[%s]", "$[?@ == %s]", "$[?match(@, %s)]", "$[0, %s]"):
            query = tmpl % t
            o = mon.observe(jp.compile, query)
            rec.monitor("M-compile-invalid")
            rec.case(query, True)
            rec.feat("invalid:" + cls)
            if o[0] == "ok":
                rec.violation("accepted-invalid-literal:" + cls, {"query": query, "class": cls, "compiled_to": str(o[1])})
            elif o[0] == "exc":
                rec.violation("invalid-literal-raises-" + type(o[1]).__name__, {"query": query, "class": cls, "observed": mon.describe_outcome(o)})
            # a rejected literal must not leave anything behind: the next valid literal on the same environment decodes alone
            sd = {"c": [1], "abc": [2], "ac": [3], "": [4]}
            so = mon.observe(jp.find, "$['c', \"\\u0063\"]", sd)
            rec.monitor("M-find")
            if so[0] != "ok" or [(n.location, id(n.value)) for n in so[1]] != [(("c",), id(sd["c"])), (("c",), id(sd["c"]))]:
                rec.violation("literal-after-rejected-literal", {"rejected_query": query, "then": "$['c', \"\\u0063\"]",
                                                                 "observed": [jsonable(list(n.location)) for n in so[1]] if so[0] == "ok" else mon.describe_outcome(so)})
    rec.sample({"invalid_literals": [t for _, t in cases[:8]]}, limit=2)


def finish(m, tier):
    m["extra"]["exhaustive_scope"] = ("every spelling of every code point " + ("U+0000-U+07FF" if tier == "quick" else "U+0000-U+10FFFF (scalar values)")
                                      + "; the 10x10 surrogate boundary pairs; sequences and surrogate pairs otherwise sampled")
    return []


def replay(case, rec):
    import jsonpath_rfc9535 as jp
    rec.case("r1", True)
    rec.case("r2", True)
    if "query" in case:
        o = mon.observe(jp.compile, case["query"])
        rec.monitor("M-compile-invalid")
        if o[0] != "jperr":
            rec.violation("accepted-invalid-literal:replay", case)
        return
    s = "".join(chr(int(h, 16)) for h in case["expected_codepoints"])
    bad = batch_names(jp, rec, [(case["literal"], s)]) if case["position"].startswith("name") else batch_compare(jp, rec, [(case["literal"], s)])
    report(rec, [b for b in bad if b[1] != "<batch>"])
