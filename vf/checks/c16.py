"""C16 — lazy result iterators are independent under any interleaving or threading."""
from __future__ import annotations

import gc
import itertools
import os
import random
import sys
import threading
import time

from ..gen import queries as G
from ..gen import docs as D
from ..oracle.sem import BUILTIN_SIGS
from .. import mon
from ..worker import guard, CaseTimeout, jsonable

PROPERTY = "C16"
RULE = ("Part A (single thread, schedule enumeration): k in {2,3} live iterators drawn from {same compiled query & same value, same query & "
        "different values, different queries of one environment, different environments}; EVERY interleaving of next() calls (including "
        "the call that raises StopIteration) when the multinomial is <= 3000, else 300 random schedules; optionally one iterator is "
        "abandoned (close() or dropped + gc.collect()) at a random prefix, and in 30% of the schedules an unrelated use of the library happens between two steps (a customised environment subclass that replaces length/count/match is instantiated and used, a plain environment is created, another query is compiled and abandoned or rejected on the same environment, a module-level find). Oracle: each iterator yields exactly its solitary "
        "(location, value identity) sequence. Part B (threads): 4-8 threads over one shared environment compile and evaluate (list and "
        "step-wise), iterators created in one thread are advanced in another after a lock hand-off; sys.setswitchinterval(1e-6) and a "
        "sys.monitoring LINE callback that yields the GIL with seeded probability on lines of the package. Oracle: the sequential "
        "results. Queries use filters with $ and @, nested filters, descendant segments and match/search with several patterns. "
        "Non-trivial: schedule case with >=2 non-empty iterators that actually alternate / thread run with >=1 observed switch inside "
        "package code; distinct by (case, schedule) resp. run. Evidence reports schedules executed, thread switches and switch sites."
        " In the thread runs some compiled query objects are shared by all threads and evaluated at the same time on larger documents, and bursts of distinct new query texts are compiled concurrently.")
ASSUMPTIONS = ["single-threaded generators can only switch at next(): next()-level schedules are all single-thread interleavings",
               "two threads never run inside the same generator object (Python forbids it; that would be a harness artefact)"]
DECIDING_MONITORS = ["M-sched", "M-thread-run"]


def sig_list(nodes):
    return [(tuple(n.location), id(n.value)) for n in nodes]


SPECIAL = [
    "$.items[?@.price < $.limit].name", "$..[?@.a == $.a]", "$[?@[?@.a > $.limit]]", "$..[?count(@.*) > $.n]", "$[?match(@.s, $.p)]",
    "$.items[?@.price < $.limit]..*", "$..[?@.id]", "$[?search(@.name, 'a')].name", "$[?match(@.name, '[ab].*')]", "$.items[*].name",
    "$..*", "$[?length(@.name) == $.n]", "$..[*]", "$..name", "$..[0]", "$..items[*]", "$..[?@.name]", "$.items..*", "$..a", "$..*..id",
    # slices whose result depends on the length of each array they meet
    "$.items[:-1].id", "$..[1:-1]", "$.items[0:-1:1].name", "$..items[:-1]", "$[:-1]..id", "$..[-2:]", "$.items[1:3].id", "$..[::-1]",
]


HEAVY = ["$[?match(@.name, 'a.*')].id", "$[?search(@.s, 'b')].id", "$.items[?@.price < $.limit].name", "$.items[?length(@.name) == 4 && search(@.name, 'b')].id"]


def make_doc(R):
    items = [{"name": R.choice(["a", "b", "ab", "ba", "c"]), "price": R.randint(0, 9), "id": i, "s": R.choice(["x", "ab", "b"]), "a": R.randint(0, 2)} for i in range(R.randint(1, 4))]
    d = {"items": items, "limit": R.randint(0, 9), "a": R.randint(0, 2), "n": R.randint(0, 3), "p": R.choice(["a.*", "x", "[ab]+"])}
    if R.random() < 0.5:
        return d
    return items + [d]


def gen_query_text(R):
    if R.random() < 0.5:
        return R.choice(SPECIAL)
    cfg = G.Cfg(filters=True, regex_functions=True, max_depth=2, max_segments=3)
    cfg.names = ["a", "items", "name", "price", "limit", "id", "s", "n"]
    q = G.QGen(R, cfg).query(root="$")
    return G.render(q, R, ws="none")


def schedules(lengths, R, cap=3000, rnd=300):
    """All interleavings of next() calls; iterator i is called lengths[i]+1 times (the last call raises StopIteration)."""
    calls = [n + 1 for n in lengths]
    total = sum(calls)
    # multinomial
    m = 1
    rest = total
    for c in calls:
        m *= _binom(rest, c)
        rest -= c
    if m <= cap:
        base = []
        for i, c in enumerate(calls):
            base += [i] * c
        seen = set()
        for p in _multiset_perms(base):
            yield p
        return
    for _ in range(rnd):
        base = []
        for i, c in enumerate(calls):
            base += [i] * c
        R.shuffle(base)
        yield tuple(base)


def _binom(n, k):
    from math import comb
    return comb(n, k)


def _multiset_perms(items):
    items = sorted(items)
    n = len(items)
    yield tuple(items)
    while True:
        i = n - 2
        while i >= 0 and items[i] >= items[i + 1]:
            i -= 1
        if i < 0:
            return
        j = n - 1
        while items[j] <= items[i]:
            j -= 1
        items[i], items[j] = items[j], items[i]
        items[i + 1:] = reversed(items[i + 1:])
        yield tuple(items)


def run_schedule(sources, sched, abandon=None, churn=None):
    """sources: list of (compiled query, value). Returns per-iterator yielded sequences (None if errored).
    churn = (step, callable): unrelated use of the library made between two steps of the schedule."""
    its = [iter(q.finditer(v)) for q, v in sources]
    out = [[] for _ in sources]
    done = [False] * len(sources)
    for step, i in enumerate(sched):
        if churn is not None and step == churn[0]:
            try:
                churn[1]()
            except Exception:  # noqa: BLE001
                pass
        if abandon is not None and step == abandon[1]:
            j = abandon[0]
            if not done[j]:
                if abandon[2] == "close" and hasattr(its[j], "close"):
                    its[j].close()
                else:
                    its[j] = None
                    gc.collect()
                done[j] = True
        if done[i] or its[i] is None:
            continue
        try:
            n = next(its[i])
            out[i].append((tuple(n.location), id(n.value)))
        except StopIteration:
            done[i] = True
        except Exception as e:  # noqa: BLE001
            out[i].append(("ERR", type(e).__name__))
            done[i] = True
    return out, done


def churn_actions(jp, env):
    """Unrelated uses of the library that may happen while iterators are suspended."""
    from jsonpath_rfc9535 import JSONPathEnvironment, NOTHING
    from jsonpath_rfc9535.function_extensions import ExpressionType, FilterFunction

    class OtherLength(FilterFunction):
        arg_types = [ExpressionType.VALUE]
        return_type = ExpressionType.VALUE

        def __call__(self, obj):
            return len(obj) + 1 if isinstance(obj, str) else NOTHING

    class OtherCount(FilterFunction):
        arg_types = [ExpressionType.NODES]
        return_type = ExpressionType.VALUE

        def __call__(self, nodes):
            return 100 + len(nodes)

    class CustomEnv(JSONPathEnvironment):
        max_recursion_depth = 3
        nondeterministic = False

        def setup_function_extensions(self):
            super().setup_function_extensions()
            self.function_extensions["length"] = OtherLength()
            self.function_extensions["count"] = OtherCount()
            self.function_extensions["match"] = OtherLength()

    data = [{"name": "ab", "a": 1, "s": "b"}, {"name": "abcd", "a": [1, 2]}, "ab", [1, 2]]
    return {
        "new-customised-environment": lambda: CustomEnv().find("$[?length(@.name) == 3 || count(@.*) > 100]", data),
        "new-plain-environment": lambda: JSONPathEnvironment().find("$[?length(@.name) == 2]", data),
        "compile-and-abandon-on-same-environment": lambda: env.compile("$..[?@.a == 1 || @.a == 1.0 || @.a == true || search(@.s, 'b')]").find_one(data),
        "rejected-compile-on-same-environment": lambda: env.compile("$[?@.name == 'ab\x01' || length(@.name, 1)]"),
        "module-level-find": lambda: jp.find("$..[?length(@.name) == 4]..*", data),
    }


def part_a(jp, rec, R, n_cases):
    from jsonpath_rfc9535 import JSONPathEnvironment
    env_d = JSONPathEnvironment()
    env2 = JSONPathEnvironment()
    env_nd = type("NDEnv", (JSONPathEnvironment,), {"nondeterministic": True})()
    churns_d = churn_actions(jp, env_d)
    churns_nd = churn_actions(jp, env_nd)
    for _ in range(n_cases):
        k = R.choice([2, 2, 3])
        mode = R.choice(["same-query-same-value", "same-query-different-values", "different-queries-one-env", "different-envs"])
        # one case in five uses an environment in nondeterministic mode: the order of an iterator's nodes is then free, but WHICH nodes
        # it yields (as a multiset) is not, however the iterators are interleaved
        nd = R.random() < 0.2
        env = env_nd if nd else env_d
        churns = churns_nd if nd else churns_d
        texts = [gen_query_text(R)]
        docs = [make_doc(R)]
        srcs = []
        try:
            q0 = env.compile(texts[0])
        except Exception:  # noqa: BLE001
            continue
        for i in range(k):
            if mode == "same-query-same-value":
                srcs.append((q0, docs[0], texts[0]))
            elif mode == "same-query-different-values":
                srcs.append((q0, make_doc(R), texts[0]))
            else:
                t = gen_query_text(R) if i else texts[0]
                e = env if mode == "different-queries-one-env" or i % 2 == 0 else env2
                try:
                    srcs.append((e.compile(t), docs[0] if R.random() < 0.5 else make_doc(R), t))
                except Exception:  # noqa: BLE001
                    srcs.append((q0, docs[0], texts[0]))
        solo = []
        ok = True
        t_solo = time.time()
        for q, v, t in srcs:
            o = mon.observe(lambda: list(q.finditer(v)))
            if o[0] != "ok":
                ok = False
                break
            solo.append(sig_list(o[1]))
        if not ok or sum(len(s) for s in solo) > 14:
            # keep schedules enumerable: trim by choosing smaller docs next time
            if not ok:
                continue
        lengths = [min(len(s), 6) for s in solo]
        if sum(len(s) for s in solo) > 18:
            continue
        if time.time() - t_solo > 0.05:
            # up to 3000 schedules repeat these evaluations: a case whose plain evaluation is already slow is left out
            rec.feat("skipped:slow-evaluation")
            continue
        lengths = [len(s) for s in solo]
        nsched = 0
        exhaustive = True
        rec.wal({"schedule-case": [t for _, _, t in srcs], "lengths": lengths})
        for sched in schedules(lengths, R):
            nsched += 1
            abandon = None
            if R.random() < 0.15:
                abandon = (R.randrange(k), R.randrange(len(sched)), R.choice(["close", "drop"]))
            churn = None
            if R.random() < 0.3:
                churn_name = R.choice(sorted(churns))
                churn = (R.randrange(len(sched)), churns[churn_name])
                rec.feat("churn:" + churn_name)
            got, done = run_schedule([(q, v) for q, v, _ in srcs], sched, abandon, churn)
            rec.monitor("M-sched")
            alternates = sum(1 for a, b in zip(sched, sched[1:]) if a != b) >= 2 and sum(1 for s in solo if s) >= 2
            rec.case((tuple(t for _, _, t in srcs), tuple(D.short(v, 500) for _, v, _ in srcs), sched, abandon), alternates)
            for i in range(k):
                want = solo[i]
                if nd:
                    if abandon is not None and abandon[0] == i:
                        from collections import Counter as _C
                        if _C(got[i]) - _C(want):
                            rec.violation("abandoned-iterator-prefix-differs", dict(witness(srcs, sched, abandon, i, got[i], want), mode="nondeterministic environment: compared as multisets"))
                        continue
                    if sorted(got[i], key=repr) != sorted(want, key=repr):
                        rec.violation("interleaved-sequence-differs", dict(witness(srcs, sched, abandon, i, got[i], want), mode="nondeterministic environment: compared as multisets"))
                        break
                    continue
                if abandon is not None and abandon[0] == i:
                    if got[i] != want[:len(got[i])]:
                        rec.violation("abandoned-iterator-prefix-differs", witness(srcs, sched, abandon, i, got[i], want))
                    continue
                if got[i] != want:
                    w_ = witness(srcs, sched, abandon, i, got[i], want)
                    if churn is not None:
                        w_["unrelated_library_use_before_step"] = [churn[0], churn_name]
                    rec.violation("interleaved-sequence-differs", w_)
                    break
        rec.feat("mode:" + mode + (":nondeterministic" if nd else ""))
        rec.feat("schedules", nsched)
        rec.sample({"queries": [t for _, _, t in srcs], "result_lengths": lengths, "schedules_executed": nsched, "mode": mode}, limit=4)


def witness(srcs, sched, abandon, i, got, want):
    return {"queries": [t for _, _, t in srcs], "documents": [jsonable(v) for _, v, _ in srcs], "schedule": list(sched), "abandon": list(abandon) if abandon else None,
            "iterator": i, "observed": [list(l) if isinstance(l, tuple) else l for l, _ in got], "solitary": [list(l) for l, _ in want]}


# --- Part B: threads -----------------------------------------------------------
class YieldInjector:
    def __init__(self, pkg, seed, p):
        self.pkg = pkg
        self.R = random.Random(seed)
        self.p = p
        self.sites = {}
        self.switches = 0
        self.switch_sites = set()
        self.last = None
        self.on = False
        self.lock = threading.Lock()

    def start(self):
        m = getattr(sys, "monitoring", None)
        if m is None:
            return
        try:
            m.use_tool_id(m.PROFILER_ID, "vf-yield")
            m.register_callback(m.PROFILER_ID, m.events.LINE, self.cb)
            m.set_events(m.PROFILER_ID, m.events.LINE)
            self.on = True
        except Exception:  # noqa: BLE001
            self.on = False

    def cb(self, code, line):
        fn = code.co_filename
        if not fn.startswith(self.pkg):
            return sys.monitoring.DISABLE
        tid = threading.get_ident()
        if self.last is not None and self.last != tid:
            self.switches += 1
            self.switch_sites.add("%s:%d" % (os.path.basename(fn), line))
        self.last = tid
        if self.R.random() < self.p:
            time.sleep(0)
        return None

    def stop(self):
        if self.on:
            m = sys.monitoring
            m.set_events(m.PROFILER_ID, 0)
            m.register_callback(m.PROFILER_ID, m.events.LINE, None)
            m.free_tool_id(m.PROFILER_ID)
            self.on = False


def thread_run(jp, rec, R, run_id):
    from jsonpath_rfc9535 import JSONPathEnvironment
    pkg = os.path.dirname(os.path.abspath(jp.__file__))
    env = JSONPathEnvironment()
    T = R.randint(4, 8)
    jobs = []
    fresh_env = JSONPathEnvironment()   # not touched before the threads start: its first use is concurrent
    # some compiled query objects are shared by all threads (evaluated concurrently on different documents)
    shared = {}
    for text in R.sample(SPECIAL, 5) + [gen_query_text(R) for _ in range(3)]:
        try:
            shared[text] = env.compile(text)
        except Exception:  # noqa: BLE001
            pass
    for text in HEAVY:
        shared[text] = env.compile(text)
    shared_texts = sorted(shared)
    burst = ["$.b%d_%d[?@.x == %d]" % (run_id.__hash__() % 97, i, i) for i in range(40)]
    for t in range(T):
        mine = [(R.choice(["$[?length(@.name) == 2]", "$[?match(@.name, 'a.*')]", "$[?count(@.*) > 1]", "$[?search(@.s, 'b')]", "$[?value(@.id) == 1]"]), make_doc(R), "fresh-env")]
        # compile storm: right after the start barrier every thread compiles many distinct new query texts on the shared environment
        for k_ in range(24):
            mine.append(("$.storm_%d_%d[?@.x == %d && @.y != 'q%d']" % (t, k_, k_, R.randrange(1000)), [], "list"))
        for _ in range(R.randint(6, 14)):
            r = R.random()
            if r < 0.35 and shared_texts:
                mine.append((R.choice(shared_texts), make_doc(R), "shared-" + R.choice(["list", "step"])))
            elif r < 0.55:
                # many distinct new query texts compiled back to back
                for b in R.sample(burst, 10):
                    mine.append((b, [], "list"))
            else:
                mine.append((gen_query_text(R), make_doc(R), R.choice(["list", "step", "handoff"])))
        # one compiled query evaluated by every thread at the same time on larger documents, a few rounds
        for text in HEAVY:
            if text in shared:
                big = [{"id": i, "name": R.choice(["abc", "xyz", "ab", "b", "cab"]) + str(i % 7), "s": R.choice(["b", "x", "ab"]), "price": R.randint(0, 9)} for i in range(R.randint(25, 50))]
                doc = big if text.startswith("$[") else {"items": big, "limit": R.randint(2, 7)}
                for _ in range(2):
                    mine.append((text, doc, "shared-step"))
        jobs.append(mine)
    # sequential reference (fresh environment, no threads)
    ref_env = JSONPathEnvironment()
    expected = []
    for mine in jobs:
        exp = []
        for text, doc, how in mine:
            try:
                exp.append(("ok", sig_list(ref_env.compile(text).find(doc))))
            except Exception as e:  # noqa: BLE001
                exp.append(("err", type(e).__name__))
        expected.append(exp)
    results = [[None] * len(m) for m in jobs]
    handoff = []
    hlock = threading.Lock()
    errors = []
    start = threading.Barrier(T)

    def worker(t):
        try:
            start.wait()
            for j, (text, doc, how) in enumerate(jobs[t]):
                try:
                    if how.startswith("shared-"):
                        q = shared[text]
                        how = how[7:]
                    elif how == "fresh-env":
                        q = fresh_env.compile(text)
                        how = "list"
                    else:
                        q = env.compile(text)
                    if how == "list":
                        results[t][j] = ("ok", sig_list(q.find(doc)))
                    elif how == "step":
                        out = []
                        it = iter(q.finditer(doc))
                        for n in it:
                            out.append((tuple(n.location), id(n.value)))
                        results[t][j] = ("ok", out)
                    else:
                        it = iter(q.finditer(doc))
                        out = []
                        try:
                            n = next(it)
                            out.append((tuple(n.location), id(n.value)))
                        except StopIteration:
                            results[t][j] = ("ok", out)
                            continue
                        with hlock:
                            handoff.append((t, j, it, out))
                except Exception as e:  # noqa: BLE001
                    results[t][j] = ("err", type(e).__name__)
                # pick up an iterator created by another thread and finish it
                with hlock:
                    item = handoff.pop(0) if handoff and handoff[0][0] != t else None
                if item:
                    finish_iter(item)
        except Exception as e:  # noqa: BLE001
            errors.append(repr(e))

    def finish_iter(item):
        tt, jj, it, out = item
        try:
            for n in it:
                out.append((tuple(n.location), id(n.value)))
            results[tt][jj] = ("ok", out)
        except Exception as e:  # noqa: BLE001
            results[tt][jj] = ("err", type(e).__name__)

    inj = YieldInjector(pkg, "%s/%d" % (run_id, 1), R.choice([0.02, 0.1, 0.3, 0.5]))
    old = sys.getswitchinterval()
    sys.setswitchinterval(1e-6)
    inj.start()
    try:
        threads = [threading.Thread(target=worker, args=(t,), daemon=True, name="w%d" % t) for t in range(T)]
        for th in threads:
            th.start()
        deadline = time.time() + 90
        for th in threads:
            th.join(max(0.1, deadline - time.time()))
        stuck = any(th.is_alive() for th in threads)
        blocked = None
        if stuck:
            # logical criterion for a deadlock (not a wall-clock verdict): two stack samples some seconds apart are
            # identical and every live worker thread is parked inside package code (waiting for a lock it can never get)
            def stacks():
                out = {}
                frames = sys._current_frames()
                for th in threads:
                    if th.is_alive() and th.ident in frames:
                        f = frames[th.ident]
                        chain = []
                        while f is not None:
                            chain.append((f.f_code.co_filename, f.f_lineno, f.f_code.co_name))
                            f = f.f_back
                        out[th.name] = chain
                return out
            s1 = stacks()
            time.sleep(5)
            s2 = stacks()
            if s1 and s1 == s2:
                inside = {name: next(((os.path.basename(fn), ln, fnname) for fn, ln, fnname in chain if fn.startswith(pkg)), None) for name, chain in s2.items()}
                if all(v is not None for v in inside.values()):
                    blocked = inside
    finally:
        inj.stop()
        sys.setswitchinterval(old)
    for item in handoff:
        finish_iter(item)
    rec.monitor("M-thread-run")
    rec.feat("thread-switches-in-package", inj.switches)
    rec.feat("threads", T)
    rec.extra.setdefault("switch_sites", {})
    for s in inj.switch_sites:
        rec.extra["switch_sites"][s] = rec.extra["switch_sites"].get(s, 0) + 1
    rec.case(("thread-run", run_id), inj.switches > 0)
    if stuck and blocked:
        rec.violation("threads-deadlocked-inside-package-code", {"threads": T, "blocked_at": jsonable(blocked),
                                                                 "concurrent_queries": sorted({x[0] for m in jobs for x in m})[:12]})
        return
    if stuck:
        rec.timeout("thread run %s did not finish" % run_id)
        return
    if errors:
        rec.violation("thread-harness-exception", {"errors": errors[:3]})
    for t in range(T):
        for j, (text, doc, how) in enumerate(jobs[t]):
            if results[t][j] != expected[t][j]:
                got, want = results[t][j], expected[t][j]
                rec.violation("threaded-result-differs", {"query": text, "document": jsonable(doc), "how": how, "threads": T,
                                                          "observed": jsonable(got[1] if got and got[0] == "err" else [list(l) for l, _ in (got[1] if got else [])]),
                                                          "sequential": jsonable(want[1] if want[0] == "err" else [list(l) for l, _ in want[1]]),
                                                          "concurrent_queries": sorted({x[0] for m in jobs for x in m})[:12]})
                return
    rec.sample({"threads": T, "jobs": sum(len(m) for m in jobs), "switches_inside_package": inj.switches, "distinct_switch_sites": len(inj.switch_sites)}, limit=3)


def plan(tier, seed, nproc, scale):
    shards = nproc if tier == "quick" else nproc * 4
    cases = int((1600 if tier == "quick" else 24000) * scale)
    runs = int((48 if tier == "quick" else 1600) * scale)
    specs = [{"kind": "schedules", "seed": "%d/a%d" % (seed, i), "n": max(1, cases // shards)} for i in range(shards)]
    specs += [{"kind": "threads", "seed": "%d/b%d" % (seed, i), "n": max(1, runs // shards)} for i in range(shards)]
    return specs


def run_shard(spec, rec):
    import jsonpath_rfc9535 as jp
    R = random.Random(spec["seed"])
    if spec["kind"] == "schedules":
        part_a(jp, rec, R, spec["n"])
    else:
        for i in range(spec["n"]):
            rec.wal({"thread-run": i})
            thread_run(jp, rec, R, "%s/%d" % (spec["seed"], i))
            rec.heartbeat(True)
            if rec.viol_counts.get("threads-deadlocked-inside-package-code"):
                break   # blocked daemon threads are left behind; further runs in this process would only pile up


def finish(m, tier):
    sites = m["extra"].get("switch_sites", {})
    m["extra"]["distinct_switch_sites"] = len(sites)
    m["extra"]["schedules_executed"] = m["features"].get("schedules", 0)
    m["extra"]["thread_switches_inside_package"] = m["features"].get("thread-switches-in-package", 0)
    out = []
    if m["monitors"].get("M-thread-run", 0) and not m["features"].get("thread-switches-in-package", 0):
        out.append("no thread switch was observed inside package code")
    return out


def replay(case, rec):
    import jsonpath_rfc9535 as jp
    from jsonpath_rfc9535 import JSONPathEnvironment
    rec.case("r1", True)
    rec.case("r2", True)
    if "schedule" not in case:
        rec.note("thread-run witnesses are schedule dependent; re-run the check with the same seed")
        return
    env = JSONPathEnvironment()
    cache = {}
    srcs = []
    for t, d in zip(case["queries"], case["documents"]):
        q = cache.setdefault(t, env.compile(t))
        srcs.append((q, d, t))
    solo = [sig_list(list(q.finditer(v))) for q, v, _ in srcs]
    got, done = run_schedule([(q, v) for q, v, _ in srcs], case["schedule"], tuple(case["abandon"]) if case.get("abandon") else None)
    rec.monitor("M-sched")
    i = case["iterator"]
    if [l for l, _ in got[i]] != [l for l, _ in solo[i]][:len(got[i])] or (not case.get("abandon") and len(got[i]) != len(solo[i])):
        rec.violation("interleaved-sequence-differs", case)
