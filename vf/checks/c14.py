"""C14 — evaluation is pure and repeatable; queries and environments do not interfere."""
from __future__ import annotations

import gc
import json
import os
import random
import subprocess
import sys
import tempfile

from ..gen import queries as G
from ..gen import docs as D
from ..oracle.sem import V, L, N, BUILTIN_SIGS
from .. import mon
from ..worker import guard, CaseTimeout, jsonable

PROPERTY = "C14"
RULE = ("random operation histories (length 12-50) over {create environment / environment subclass with other class attributes, register a "
        "function under a fresh name, compile q on an environment, apply a compiled query (find/finditer) to a document, environment find, "
        "module-level find, gc.collect, drop and re-create documents (address reuse), make an equal-content twin, update a document in "
        "place between applications}; documents are built from mutation-recording dict/list subclasses with unique leaf ids. Monitors: "
        "(i) any mutating method call on, or before/after snapshot difference of, the document passed to a call; (ii) each call's "
        "(location, identity-into-the-given-document) sequence must equal the SOLITARY result of the same query text on equal data with "
        "an equally configured fresh environment (computed in-process after the history, and for a sample in a separate pristine process "
        "with another hash seed); repeated identical calls must agree with each other; (iii) after registering on / subclassing "
        "environment A, every other environment keeps its registry keys and class attributes, still rejects a query naming the new "
        "function with the same error, and keeps all its earlier results. Non-trivial: history contains >=2 environments and >=1 reuse of "
        "a compiled query on different or changed data; distinct by history."
        " Histories also contain compiles that are rejected half-way through a literal, number, bracket or call (34 fixed strings and random damage to earlier queries), iterators abandoned half-way, live iterators that are finished several operations later, and match/search queries whose patterns are valid, invalid or non-strings, literal or taken from the data.")
ASSUMPTIONS = ["solitary run of the same real code is the oracle (deliberately not the RFC model, so C14 is independent of semantic findings)",
               "registering on jsonpath_rfc9535.DEFAULT_ENV legitimately changes the module-level functions and is therefore not part of the histories"]
# no copies of compiled queries here: a deep copy carries its own copy of the environment, which legitimately does not follow
# later re-registrations on the original (the histories of this check re-register functions)
HOST_CONDITIONS = (0.01, 0.01, 0.0)
DECIDING_MONITORS = ["M-call", "M-solitary"]

FUNC_KINDS = {
    "ident": ((V,), V),       # returns its argument
    "isstr": ((V,), L),       # is the argument a string
    "seven": ((), V),         # constant 7
    "cnt": ((N,), V),         # number of nodes
    "any": ((L,), L),         # identity on logical
    # same signatures, other behaviour (a name can be re-registered with one of these without invalidating compiled queries)
    "ident_b": ((V,), V),     # 1 for every argument
    "isstr_b": ((V,), L),     # is the argument NOT a string
    "seven_b": ((), V),       # constant 8
    "cnt_b": ((N,), V),       # number of nodes + 1
    "any_b": ((L,), L),       # negation
}
SIBLING = {"ident": "ident_b", "isstr": "isstr_b", "seven": "seven_b", "cnt": "cnt_b", "any": "any_b",
           "ident_b": "ident", "isstr_b": "isstr", "seven_b": "seven", "cnt_b": "cnt", "any_b": "any"}


def func_impl(kind):
    if kind == "ident":
        return lambda x: x
    if kind == "isstr":
        return lambda x: isinstance(x, str)
    if kind == "seven":
        return lambda: 7
    if kind == "cnt":
        return lambda ns: len(ns)
    if kind == "ident_b":
        return lambda x: 1
    if kind == "isstr_b":
        return lambda x: not isinstance(x, str)
    if kind == "seven_b":
        return lambda: 8
    if kind == "cnt_b":
        return lambda ns: len(ns) + 1
    if kind == "any_b":
        return lambda b: not b
    return lambda b: b


ATTR_CHOICES = [{}, {"max_recursion_depth": 6}, {"max_int_index": 50, "min_int_index": -50}, {"max_recursion_depth": 3, "max_int_index": 5, "min_int_index": -5},
                {"max_recursion_depth": 5000}, {"max_int_index": 2**62, "min_int_index": -(2**62)}]


def interpreter_settings():
    """Interpreter-wide settings that everything else in the process depends on."""
    import locale
    return {"recursionlimit": sys.getrecursionlimit(), "switchinterval": sys.getswitchinterval(), "int_max_str_digits": sys.get_int_max_str_digits(),
            "locale": locale.setlocale(locale.LC_ALL), "default_encoding": sys.getdefaultencoding()}


def build_env(cfg):
    """Fresh environment from a JSON-able config {attrs, funcs: {name: kind}, subclass: bool}."""
    from jsonpath_rfc9535 import JSONPathEnvironment
    reg = {n: (FUNC_KINDS[k][0], FUNC_KINDS[k][1], func_impl(k)) for n, k in cfg["funcs"].items()}
    env, _ = mon.make_env(reg, attrs=cfg["attrs"]) if (cfg["attrs"] or cfg.get("subclass")) else (JSONPathEnvironment(), None)
    if not (cfg["attrs"] or cfg.get("subclass")):
        for n, (p, r, impl) in reg.items():
            env.function_extensions[n] = mon.Probe(n, p, r, impl)
    return env


# --- tripwire containers ------------------------------------------------------
class Events(list):
    pass


EVENTS = Events()
ARMED = [False]


def _trip(name):
    def method(self, *a, **k):
        if ARMED[0]:
            EVENTS.append((type(self).__name__, name))
        return getattr(super(type(self), self), name)(*a, **k)
    return method


class TDict(dict):
    pass


class TList(list):
    pass


for _n in ("__setitem__", "__delitem__", "clear", "pop", "popitem", "setdefault", "update", "__ior__"):
    setattr(TDict, _n, _trip(_n))
for _n in ("__setitem__", "__delitem__", "append", "extend", "insert", "pop", "remove", "reverse", "sort", "clear", "__iadd__", "__imul__"):
    setattr(TList, _n, _trip(_n))


def tripwired(v):
    if isinstance(v, list):
        return TList(tripwired(x) for x in v)
    if isinstance(v, dict):
        return TDict((k, tripwired(x)) for k, x in v.items())
    return v


def plain(v):
    if isinstance(v, list):
        return [plain(x) for x in v]
    if isinstance(v, dict):
        return {k: plain(x) for k, x in v.items()}
    return v


def walk_identity(doc, loc, value):
    cur = doc
    try:
        for k in loc:
            cur = cur[k]
    except (KeyError, IndexError, TypeError):
        return False
    return cur is value


def result_of(fn, doc):
    """(('ok', [locs]) | ('err', class), identity_ok)."""
    try:
        nodes = list(fn())
    except Exception as e:  # noqa: BLE001
        return ("err", type(e).__name__), True
    ok = all(walk_identity(doc, n.location, n.value) for n in nodes)
    return ("ok", [list(n.location) for n in nodes]), ok


QUERIES = None


def gen_query(R, funcs):
    reg = {k: v for k, v in BUILTIN_SIGS.items() if k not in ("match", "search")}
    for n, k in funcs.items():
        reg[n] = FUNC_KINDS[k]
    cfg = G.Cfg(filters=True, registry=reg, max_depth=2, max_segments=3)
    cfg.names = ["a", "b", "c", "id", 'q"r', "a'b", "a", "n\nl", "\t", "b\bf\f"]
    cfg.lit_pool = [None, True, 0, 1, 2, 7, "a", "b", 'x"y', "it's", 1.5, "l\nf", "\t", "\r\n", "\b\f/\\"]
    cfg.indices = [0, 1, -1, 2, 0, 1, 7, -7, 60, -60, 2**60]
    gen = G.QGen(R, cfg)
    r = R.random()
    if r < 0.35:
        # $-rooted sub-query inside a filter: classic memoisation trap
        tgt = R.choice(["$.a", "$.limit", "$[0]", "$.b[0]", "$..id", "$.c.a"])
        root_q = {"$.a": ("q", "$", (("child", (("name", "a"),)),)), "$.limit": ("q", "$", (("child", (("name", "limit"),)),)),
                  "$[0]": ("q", "$", (("child", (("idx", 0),)),)), "$.b[0]": ("q", "$", (("child", (("name", "b"),)), ("child", (("idx", 0),)))),
                  "$..id": ("q", "$", (("desc", (("name", "id"),)),)), "$.c.a": ("q", "$", (("child", (("name", "c"),)), ("child", (("name", "a"),))))}[tgt]
        if tgt == "$..id":
            e = ("test", root_q)
        else:
            e = ("cmp", R.choice(["==", "<", "!=", ">="]), R.choice([("q", "@", ()), ("q", "@", (("child", (("name", "a"),)),)), ("q", "@", (("child", (("name", "id"),)),))]), root_q)
        pre = R.choice([(), (("child", (("name", R.choice(["items", "b", "c"])),)),), (("desc", (("wild",),)),)])
        return ("q", "$", pre + (("child", (("filter", e),)),))
    if r < 0.47:
        # match/search keep compiled patterns somewhere: valid, invalid and non-string patterns in any order, literal or from the data
        fn = R.choice(["match", "search"])
        pat = R.choice(["'a.*'", "'a('", "'['", "'ab.'", "'b'", "'x|a'", "'[ab]+'", "'a{2}'", "'\\\\d'", "'(?i)a'", "@.b", "$.limit", "$.a", "1", "''"])
        subj = R.choice(["@", "@.a", "@.id", "@.b[0]"])
        pre = R.choice([(), (("child", (("name", R.choice(["items", "b"])),)),)])
        text_q = "$%s[?%s(%s, %s)]" % ("".join("." + seg[1][0][1] for seg in pre), fn, subj, pat)
        from ..oracle import abnf as _abnf
        a = _abnf.get(True).ast(text_q)
        if a is not None:
            return a
    if r < 0.5 and funcs:
        name = R.choice(sorted(funcs))
        call = gen.call(name, 1)
        e = ("test", call) if FUNC_KINDS[funcs[name]][1] == L else ("cmp", "==", call, gen.comparable(2))
        return ("q", "$", (("child", (("filter", e),)),))
    return gen.query(root="$")


REJECTED = ["$['ab\x01cd']", '$["xy\\uD800"]', "$[?@.a == 'pq\\z']", "$.a[?@.b == 'it\\'s\x02']", "$['a', 'b\\u12']", '$["a\\ud83d\\u0041"]', "$[?@.a == 'a' && @.b == 'c\x1f']",
            "$.a['b', 'c", "$[?match(@.a, 'ab\\')]", "$[1, 02]", "$[1:2:3:4]", "$[?@.a == 1.]", "$[?@.a == 1e]", "$[9007199254740992]", "$[?@.a == -]", "$.a.b[", "$.a.b[?(@.c", "$[?count(@.a) ]x",
            "$[?nosuch(@.a)]", "$[?length(@.*) == 1]", "$[?@.* == 1]", "$[?count(1) == 1]", "$[?length(@.a, @.b) == 1]", "$[?@.a == 1 &&]", "$[?!1]", "$..", "$.a..", "$ .a", "$.a b", "a",
            "$[?@.a == 'x' || @['y\x00']]", "$['\\uDC00']", "$[?search(@, 'a\\u00')]", "$['k1', 'k2', 'k3\\q']"]


def gen_doc(R):
    leaves = [None, True, False, 0, 1, 2, 7, 1.5, "", "a", "b", "x"]
    names = ["a", "b", "c", "id", "items", "limit", 'q"r', "a'b", "n\nl", "\t", "b\bf\f"]
    leaves = leaves + ['x"y', "it's", "l\nf", "\t", "\r\n", "\b\f/\\"]
    d = D.gen_value(R, names, leaves, 0, R.choice([2, 3, 4]), 4)
    if not isinstance(d, (list, dict)) or R.random() < 0.4:
        d = {"items": [D.gen_value(R, names, leaves, 1, 3, 3) for _ in range(R.randint(1, 4))], "limit": R.choice(leaves), "a": R.choice(leaves), "b": [R.choice(leaves)],
             "c": {"a": R.choice(leaves)}}
    # unique leaf ids
    counter = [0]

    def uniq(v):
        if isinstance(v, list):
            return [uniq(x) for x in v]
        if isinstance(v, dict):
            o = {k: uniq(x) for k, x in v.items()}
            if R.random() < 0.3:
                counter[0] += 1
                o["id"] = counter[0]
            return o
        return v
    d = uniq(d)
    if R.random() < 0.25:
        # the same container object in two places (shared, not cyclic): equal data, whatever is shared
        subs = []

        def collect(v):
            for x in (v.values() if isinstance(v, dict) else v if isinstance(v, list) else ()):
                if isinstance(x, (list, dict)):
                    subs.append(x)
                    collect(x)
        collect(d)
        if subs:
            x = R.choice(subs)
            if isinstance(d, list):
                d.append(x)
            else:
                d["alias"] = x
    return d


def _contains(v, target):
    if v is target:
        return True
    return any(_contains(x, target) for x in (v.values() if isinstance(v, dict) else v if isinstance(v, list) else ()))


def mutate_in_place(R, doc):
    """Harness-side update of a document between applications (legitimate; results must follow the new data)."""
    targets = []

    def visit(v):
        if isinstance(v, dict):
            targets.append(v)
            for x in list(v.values()):
                visit(x)
        elif isinstance(v, list):
            targets.append(v)
            for x in list(v):
                visit(x)
    visit(doc)
    t = R.choice(targets)
    new = R.choice([0, 1, 2, 7, "a", "x", None, True, [1], {"a": 2}])
    if isinstance(t, dict):
        k = R.choice(list(t) + ["a", "limit", "id"])
        dict.__setitem__(t, k, tripwired(new) if isinstance(t, TDict) else new)
    elif len(t) and R.random() < 0.7:
        list.__setitem__(t, R.randrange(len(t)), tripwired(new) if isinstance(t, TList) else new)
    else:
        list.append(t, tripwired(new) if isinstance(t, TList) else new)


class History:
    def __init__(self, R, jp, rec):
        self.R, self.jp, self.rec = R, jp, rec
        self.envs = []       # [(env or None for module-level, cfg)]
        self.compiled = []   # [(query obj, text, env index)]
        self.docs = []
        self.obs = []        # observations: dict(text, cfg, doc_content, result)
        self.violations = []
        self.fresh = 0
        self.live = []
        self.applied = []
        self.pinned = set()
        self.flags = {"envs": 0, "reuse": 0}

    def new_env(self):
        R = self.R
        attrs = dict(R.choice(ATTR_CHOICES))
        cfg = {"attrs": attrs, "funcs": {}, "subclass": R.random() < 0.4}
        self.envs.append((build_env(cfg), cfg))
        self.flags["envs"] += 1

    def observe(self, what, env_i, text, fn, doc, compiled_reuse=False):
        cfg = self.envs[env_i][1]
        content = plain(doc)
        before = D.snapshot(doc)
        del EVENTS[:]
        ARMED[0] = True
        try:
            res, ident = result_of(fn, doc)
        finally:
            ARMED[0] = False
        self.rec.monitor("M-call")
        after = D.snapshot(doc)
        wit = {"operation": what, "query": text, "environment": cfg, "document": jsonable(content)}
        if EVENTS:
            self.violations.append(("document-mutated:method-call", dict(wit, events=[list(e) for e in EVENTS[:5]])))
        if before != after:
            self.violations.append(("document-mutated:snapshot-differs", wit))
        if not ident:
            self.violations.append(("value-not-from-given-document", wit))
        self.obs.append({"what": what, "text": text, "cfg": cfg, "doc": content, "res": res, "step": len(self.obs)})
        if compiled_reuse:
            self.flags["reuse"] += 1

    def step(self):
        R, jp = self.R, self.jp
        r = R.random()
        if not self.envs:
            self.envs.append((None, {"attrs": {}, "funcs": {}, "module": True}))
            self.new_env()
        if len(self.docs) < 2 or r < 0.08:
            d = gen_doc(R)
            self.docs.append(tripwired(d) if R.random() < 0.6 else d)
            return
        if r < 0.14:
            self.new_env()
            self.check_others(len(self.envs) - 1, None)
            return
        if r < 0.22:
            # register a function under a fresh name on a non-module environment
            i = R.randrange(1, len(self.envs))
            env, cfg = self.envs[i]
            self.fresh += 1
            name = "fn%d_%s" % (self.fresh, R.choice("abc"))
            kind = R.choice(sorted(FUNC_KINDS))
            before = [(sorted(e.function_extensions) if e is not None else sorted(jp.DEFAULT_ENV.function_extensions)) for e, _ in self.envs]
            p, rt = FUNC_KINDS[kind]
            env.function_extensions[name] = mon.Probe(name, p, rt, func_impl(kind))
            cfg["funcs"] = dict(cfg["funcs"], **{name: kind})
            self.envs[i] = (env, dict(cfg))
            # compile a query naming it on the registering environment first (so that any cross-environment cache is primed) ...
            arg = {"ident": "@.a", "isstr": "@.a", "seven": "", "cnt": "@.*", "any": "@.a"}[kind.replace("_b", "")]
            text = "$[?%s(%s)%s]" % (name, arg, "" if rt == L else " == 7")
            o = mon.observe(env.compile, text)
            if o[0] != "ok":
                self.violations.append(("registered-function-unusable", {"query": text, "environment": cfg, "observed": mon.describe_outcome(o)}))
            else:
                self.compiled.append((o[1], text, i))
            # ... then every other environment must still refuse it and keep its registry
            self.check_others(i, text, before)
            return
        if r < 0.25 and any(cfg_["funcs"] for _, cfg_ in self.envs[1:]):
            # an existing name re-registered with another function of the same signature: queries compiled before (applied
            # already or not) and after must all call the function that is registered when they are evaluated
            i = R.choice([k for k in range(1, len(self.envs)) if self.envs[k][1]["funcs"]])
            env, cfg = self.envs[i]
            name = R.choice(sorted(cfg["funcs"]))
            kind = SIBLING[cfg["funcs"][name]]
            p, rt = FUNC_KINDS[kind]
            env.function_extensions[name] = mon.Probe(name, p, rt, func_impl(kind))
            cfg = dict(cfg, funcs=dict(cfg["funcs"], **{name: kind}))
            self.envs[i] = (env, cfg)
            self.rec.feat("function-re-registered-under-the-same-name")
            # evaluations of this environment that are suspended right now would legitimately see both functions: drop them
            for item in [x for x in self.live if x[3] == i]:
                self.live.remove(item)
                self.pinned.discard(id(item[5]))
            return
        if r < 0.34:
            i = R.randrange(len(self.envs))
            env, cfg = self.envs[i]
            text = G.render(gen_query(R, cfg["funcs"]), R, ws=R.choice(["none", "sparse"]), feat=self.rec.features)
            comp = jp.compile if env is None else env.compile
            o = mon.observe(comp, text)
            if o[0] == "ok":
                self.compiled.append((o[1], text, i))
            return
        if r < 0.62 and self.compiled and R.random() < 0.15:
            # a live iterator: started now, finished some operations later (other applications of the same query happen in between)
            if self.live and R.random() < 0.5:
                it, got, text, i, content, doc = self.live.pop(R.randrange(len(self.live)))
                try:
                    for n in it:
                        got.append(list(n.location))
                    res = ("ok", got)
                except Exception as e:  # noqa: BLE001
                    res = ("err", type(e).__name__)
                self.pinned.discard(id(doc))
                self.rec.monitor("M-call")
                self.obs.append({"what": "compiled.finditer(suspended)", "text": text, "cfg": self.envs[i][1], "doc": content, "res": res, "step": len(self.obs)})
                self.flags["reuse"] += 1
            else:
                q, text, i = R.choice(self.compiled)
                doc = R.choice(self.docs)
                if id(doc) not in self.pinned:
                    try:
                        it = iter(q.finditer(doc))
                        n = next(it)
                        self.live.append((it, [list(n.location)], text, i, plain(doc), doc))
                        self.pinned.add(id(doc))
                    except StopIteration:
                        pass
                    except Exception:  # noqa: BLE001
                        pass
            return
        if r < 0.62 and self.compiled:
            q, text, i = R.choice(self.compiled)
            doc = R.choice(self.docs)
            if R.random() < 0.25:
                # abandon an iterator half-way (find_one, or a few next() calls): later applications must not notice
                try:
                    if R.random() < 0.5:
                        q.find_one(doc)
                    else:
                        it = iter(q.finditer(doc))
                        for _ in range(R.randint(1, 3)):
                            next(it)
                        del it
                except StopIteration:
                    pass
                except Exception:  # noqa: BLE001
                    pass
                self.rec.feat("abandoned-iterator")
                return
            m = R.choice(["find", "finditer", "apply"])
            self.observe("compiled." + m, i, text, lambda: getattr(q, m)(doc), doc, compiled_reuse=True)
            self.applied.append((q, text, i, doc))
            if len(self.applied) > 40:
                self.applied.pop(0)
            return
        if r < 0.74:
            i = R.randrange(len(self.envs))
            env, cfg = self.envs[i]
            text = R.choice(self.compiled)[1] if self.compiled and R.random() < 0.6 else G.render(gen_query(R, cfg["funcs"]), R, ws="none")
            doc = R.choice(self.docs)
            tgt = jp if env is None else env
            m = R.choice(["find", "finditer"])
            self.observe(("module." if env is None else "env.") + m, i, text, lambda: getattr(tgt, m)(text, doc), doc)
            return
        if r < 0.775:
            # a query that is REJECTED (half-way through a literal, a number, a bracket, a call ...): whatever the lexer/parser
            # had collected by then must not leak into the next compile on this or any other environment
            i = R.randrange(len(self.envs))
            env, cfg = self.envs[i]
            text = R.choice(REJECTED)
            if R.random() < 0.3 and self.compiled:
                t0 = R.choice(self.compiled)[1]
                k = R.randrange(len(t0) + 1)
                text = t0[:k] + R.choice(["'ab\x01", '"cd\\uD800"', "'\\z'", "[", "(", "01", "?", "'zz"]) + t0[k:]
            o = mon.observe(jp.compile if env is None else env.compile, text)
            self.rec.feat("rejected-compile" if o[0] != "ok" else "rejected-compile:accepted-after-all")
            if o[0] == "ok":
                self.compiled.append((o[1], text, i))
            return
        if r < 0.80:
            gc.collect()
            return
        if r < 0.86 and len(self.docs) > 2:
            # drop a document and create new ones (address reuse)
            self.docs.pop(R.randrange(len(self.docs)))
            gc.collect()
            for _ in range(2):
                d = gen_doc(R)
                self.docs.append(tripwired(d) if R.random() < 0.6 else d)
            return
        if r < 0.89:
            d = R.choice(self.docs)
            self.docs.append(D.deep_copy(plain(d)) if R.random() < 0.5 else tripwired(plain(d)))
            return
        cand = [d for d in self.docs if id(d) not in self.pinned]
        if cand:
            d = R.choice(cand)
            mutate_in_place(R, d)
            # re-apply right away a compiled query that has already seen this very document object
            seen = [(q, text, i) for (q, text, i, dd) in self.applied if dd is d]
            if seen:
                q, text, i = R.choice(seen)
                self.observe("compiled.find(after in-place update)", i, text, lambda: q.find(d), d, compiled_reuse=True)

    def check_others(self, changed_i, text, before=None):
        jp = self.jp
        from jsonpath_rfc9535 import JSONPathEnvironment
        base = {"max_recursion_depth": 100, "max_int_index": 2**53 - 1, "min_int_index": -(2**53) + 1, "nondeterministic": False}
        for k, v in base.items():
            if getattr(JSONPathEnvironment, k) != v:
                self.violations.append(("base-class-attribute-changed", {"attribute": k, "value": repr(getattr(JSONPathEnvironment, k))}))
        for j, (e, cfg) in enumerate(self.envs):
            if j == changed_i:
                continue
            real = jp.DEFAULT_ENV if e is None else e
            want_attrs = dict(base, **cfg["attrs"])
            for k, v in want_attrs.items():
                if getattr(real, k) != v:
                    self.violations.append(("environment-attribute-changed", {"attribute": k, "environment": cfg, "value": repr(getattr(real, k))}))
            if before is not None and sorted(real.function_extensions) != before[j]:
                self.violations.append(("registry-leak", {"environment": cfg, "registry_now": sorted(real.function_extensions), "before": before[j]}))
            if text is not None:
                o = mon.observe(real.compile, text)
                self.rec.monitor("M-foreign-compile")
                if o[0] != "jperr" or type(o[1]).__name__ != "JSONPathNameError":
                    self.violations.append(("foreign-function-visible", {"query": text, "environment": cfg, "observed": mon.describe_outcome(o)}))

    def solitary(self, o):
        env = build_env({"attrs": o["cfg"]["attrs"], "funcs": o["cfg"]["funcs"], "subclass": o["cfg"].get("subclass")})
        doc = D.deep_copy(o["doc"])
        try:
            q = env.compile(o["text"])
            return ("ok", [list(n.location) for n in q.find(doc)])
        except Exception as e:  # noqa: BLE001
            return ("err", type(e).__name__)

    def finish(self):
        for o in self.obs:
            ref = self.solitary(o)
            self.rec.monitor("M-solitary")
            if ref != o["res"]:
                self.violations.append(("differs-from-solitary-run", {"operation": o["what"], "query": o["text"], "environment": o["cfg"], "document": jsonable(o["doc"]),
                                                                     "in_history": jsonable(o["res"]), "solitary": jsonable(ref), "history_step": o["step"]}))


def plan(tier, seed, nproc, scale):
    shards = nproc if tier == "quick" else nproc * 4
    n = int((2400 if tier == "quick" else 60000) * scale)
    return [{"kind": "histories", "seed": "%d/%d" % (seed, i), "n": max(1, n // shards), "pristine_sample": 150} for i in range(shards)]


def run_shard(spec, rec):
    import jsonpath_rfc9535 as jp
    R = random.Random(spec["seed"])
    sample = []
    for h in range(spec["n"]):
        hist = History(R, jp, rec)
        steps = R.randint(12, 50)
        rec.wal({"history": h, "steps": steps})
        settings = interpreter_settings()
        try:
            with guard(120):
                for _ in range(steps):
                    hist.step()
                hist.finish()
            now = interpreter_settings()
            if now != settings:
                hist.violations.append(("interpreter-wide-setting-changed", {"before": settings, "after": now,
                                                                             "environments_created": [c for _, c in hist.envs]}))
                sys.setrecursionlimit(settings["recursionlimit"])
        except CaseTimeout:
            rec.timeout("history %d" % h)
            continue
        nt = hist.flags["envs"] >= 2 and hist.flags["reuse"] >= 1
        rec.case(("history", spec["seed"], h), nt)
        rec.feat("history-steps", steps)
        rec.feat("observations", len(hist.obs))
        if nt and h < 3:
            rec.sample({"steps": steps, "environments": len(hist.envs), "compiled": len(hist.compiled), "calls": [{"op": o["what"], "query": o["text"][:80], "result": o["res"][0]} for o in hist.obs[:6]]}, limit=3)
        for key, wit in hist.violations:
            rec.violation(key, wit)
        for o in hist.obs:
            if len(sample) < spec["pristine_sample"] and R.random() < 0.2:
                sample.append(o)
    # pristine-process comparison of a sample
    if sample:
        with tempfile.TemporaryDirectory() as td:
            inp, outp = os.path.join(td, "in.json"), os.path.join(td, "out.json")
            json.dump([{"text": o["text"], "cfg": o["cfg"], "doc": o["doc"]} for o in sample], open(inp, "w"))
            env = dict(os.environ, PYTHONHASHSEED=str(R.randrange(1, 2**31)))
            p = subprocess.run([sys.executable, "-m", "vf.checks.c14", inp, outp], env=env, capture_output=True, timeout=600)
            if p.returncode == 0:
                outs = json.load(open(outp))
                for o, ref in zip(sample, outs):
                    rec.monitor("M-solitary-pristine-process")
                    ref = (ref[0], ref[1])
                    mine = (o["res"][0], o["res"][1])
                    if list(ref) != list(mine):
                        rec.violation("differs-from-pristine-process", {"query": o["text"], "environment": o["cfg"], "document": jsonable(o["doc"]),
                                                                        "in_history": jsonable(o["res"]), "pristine": jsonable(ref)})
            else:
                rec.note("pristine subprocess failed: %s" % p.stderr.decode("utf-8", "replace")[-300:])


def replay(case, rec):
    rec.case("r1", True)
    rec.case("r2", True)
    rec.note("C14 violations are history-dependent; re-run the check with the same seed to reproduce the history")


if __name__ == "__main__":
    # pristine solitary runner: python -m vf.checks.c14 in.json out.json
    items = json.load(open(sys.argv[1]))
    out = []
    for it in items:
        env = build_env({"attrs": it["cfg"]["attrs"], "funcs": it["cfg"]["funcs"], "subclass": it["cfg"].get("subclass")})
        try:
            out.append(["ok", [list(n.location) for n in env.compile(it["text"]).find(it["doc"])]])
        except Exception as e:  # noqa: BLE001
            out.append(["err", type(e).__name__])
    json.dump(out, open(sys.argv[2], "w"))
