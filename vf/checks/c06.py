"""C06 — comparison operators implement the RFC 9535 comparison table."""
from __future__ import annotations

import itertools
import random

from ..gen import queries as G
from ..gen import docs as D
from ..oracle import sem
from ..oracle.sem import NOTHING
from .. import mon
from ..worker import jsonable

PROPERTY = "C06"
RULE = ("every ordered pair of comparand values from a pool covering the 9 kinds (nothing, null, true, false, int, float, string, array, object; "
        "incl. equal int/float pairs, -0.0, +-(2^53-1), non-BMP strings, pairs whose UTF-16 order differs from code-point order, containers "
        "differing only by a bool-vs-number leaf / key order / a missing key) x 6 operators x producer combinations (literal, @-relative and "
        "$-absolute singular query on planted members, value()/length()/count() results, missing member / value() of many for nothing); "
        "observed = whether find('$[?L op R]', [child]) selects the child; oracle = comparison table of RFC 9535 2.3.5.2.2. "
        "Non-trivial: kind pair for which some operator can be true; distinct by (values, op, producers). cell_table = (kind,kind,op) cells observed."
        " Half of the cases add a sibling child with other values under the same member names (before or after the tested child) so that nothing computed for one child can be reused for the other; a nested-call sweep (current node only inside a nested call) and near-equal floats / integers beyond 2^53 in documents are included. Comparands nested 40/100/160 levels are also compared from 100 call-stack depths up to the recursion limit (the table's answer or out-of-stack, never another answer).")
ASSUMPTIONS = ["oracle vf/oracle/sem.py:compare is the RFC table (type-strict at every depth, bool never a number)",
               "number literals restricted to exactly representable values"]
DECIDING_MONITORS = ["M-find"]

MAXI = 2**53 - 1
POOL = [
    None, True, False,
    0, 1, -1, 2, 10, MAXI, -MAXI, 2**53, 2**53 + 1, -(2**53) - 1, 10**20, 255, 256, 2147483648, 10**400, -(10**400),
    0.0, -0.0, 1.0, 1.5, -2.5, 1e300, 2.0, 1e-7, 0.3, 0.30000000000000004, 1.0000000001, 1700000000000.5, 1700000000000.25,
    "", "a", "b", "ab", "A", "é", "e\u0301", "\u212a", "K", "\u00df", "ss", "\U0001F600", "￿", "\U00010000", "a\x00", "1", "true", "null",
    [], [1], [1.0], [True], [1, 2], [2, 1], [[1]], [[True]], [None], ["a"], [{"k": 1}], [{"k": True}], [0], [False], [[]],
    {}, {"k": 1}, {"k": True}, {"k": 1.0}, {"k": 1, "j": 2}, {"j": 2, "k": 1}, {"k": [1]}, {"k": [True]}, {"k": None}, {"j": 1},
    {"k": {"z": 0}}, {"k": {"z": False}}, {"k": 0}, {"k": False},
    # containers that differ in two places, one of them a boolean facing a number
    [6, True], [5, 1], [5, True], {"a": 0, "b": True}, {"a": 1, "b": 1}, [[2], False], [[3], 0], [True, 6], [1, 5],
]
OPS = ["==", "!=", "<", "<=", ">", ">="]


def _nest(n, leaf, kind):
    v = leaf
    for i in range(n):
        v = [v] if (kind == "list" or (kind == "mix" and i % 2)) else {"k": v}
    return v


# containers that differ (or not) only far below the surface: the comparison is type-strict at EVERY depth
POOL += [_nest(40, True, "list"), _nest(40, 1, "list"), _nest(40, 1.0, "list"), _nest(45, False, "dict"), _nest(45, 0, "dict"), _nest(36, [1, True], "mix"), _nest(36, [1, 1], "mix"),
         _nest(70, None, "mix"), _nest(70, 0, "mix")]


def producers_for(v, side, R):
    """Ways of producing comparand v on the given side; returns list of (tag, text, plant dict)."""
    name = "l" if side == 0 else "r"
    out = []
    if v is NOTHING:
        out.append(("rel-missing", "@.missing_%s" % name, {}))
        out.append(("abs-missing", "$[0].missing_%s" % name, {}))
        out.append(("rel-missing-index", "@.%s[5]" % name, {name: [1]}))
        out.append(("value-of-many", "value(@.many_%s[*])" % name, {"many_" + name: [1, 2]}))
        out.append(("value-of-none", "value(@.none_%s[*])" % name, {"none_" + name: []}))
        out.append(("length-of-number", "length(@.num_%s)" % name, {"num_" + name: 5}))
        out.append(("length-of-missing", "length(@.missing_%s)" % name, {}))
        # selectors that do not apply to the kind of value they meet select nothing (a string is not an array, an
        # object with the key "0" has no index 0, an array has no member named "0")
        out.append(("index-into-string", "@.str_%s[0]" % name, {"str_" + name: "abc"}))
        out.append(("neg-index-into-string", "@.str_%s[-1]" % name, {"str_" + name: "abc"}))
        out.append(("abs-index-into-string", "$[0].str_%s[1]" % name, {"str_" + name: "abc"}))
        out.append(("index-into-object", "@.obj_%s[0]" % name, {"obj_" + name: {"0": 1, "-1": 2}}))
        out.append(("name-into-array", "@.arn_%s['0']" % name, {"arn_" + name: [1, 2]}))
        out.append(("name-into-string", "@.str_%s.a" % name, {"str_" + name: "abc"}))
        out.append(("value-of-index-into-string", "value(@.str_%s[0])" % name, {"str_" + name: "abc"}))
        return out
    out.append(("rel-query", "@.%s" % name, {name: v}))
    out.append(("rel-bracket", "@['%s']" % name, {name: v}))
    out.append(("abs-query", "$[0].%s" % name, {name: v}))
    out.append(("rel-index", "@.arr_%s[1]" % name, {"arr_" + name: ["pad", v]}))
    out.append(("rel-neg-index", "@.arr_%s[-1]" % name, {"arr_" + name: ["pad", v]}))
    out.append(("value-call", "value(@.%s)" % name, {name: v}))
    out.append(("value-wild-call", "value(@.one_%s.*)" % name, {"one_" + name: [v]}))
    if v is None or isinstance(v, (bool, float, str)) or (isinstance(v, int) and abs(v) <= MAXI):
        out.append(("literal", None, {}))
    out.append(("value-of-value-call", "value(@.w_%s[?value(@) == value(@)])" % name, {"w_" + name: [v]}) if v is None or isinstance(v, (bool, int, float, str)) else
               ("value-wild-call2", "value(@.one2_%s[*])" % name, {"one2_" + name: [v]}))
    if isinstance(v, int) and not isinstance(v, bool) and 0 <= v <= 12:
        out.append(("length-of-value-call", "length(value(@.lenv_%s))" % name, {"lenv_" + name: "y" * v}))
        out.append(("length-call", "length(@.len_%s)" % name, {"len_" + name: "x" * v}))
        out.append(("length-array-call", "length(@.lena_%s)" % name, {"lena_" + name: [None] * v}))
        out.append(("count-call", "count(@.cnt_%s[*])" % name, {"cnt_" + name: list(range(v))}))
    return out


def one(jp, R, lv, rv, op, pl, pr, rec, st, sibling=None):
    """The comparison is evaluated for `child`; an optional sibling child (other values planted under the same member
    names, literals excepted) precedes or follows it, so that nothing computed for one child can be reused for the other."""
    child = {}
    texts = []
    for v, p in ((lv, pl), (rv, pr)):
        tag, text, plant = p
        if text is None:
            text = G.render_literal(st, v)
        for k, x in plant.items():
            child[k] = D.deep_copy(x)
        texts.append(text)
    ws1, ws2 = st.s("before-cmp-op"), st.s("after-cmp-op")
    query = "$[?%s%s%s%s%s]" % (texts[0], ws1, op, ws2, texts[1])
    want = sem.compare(op, lv, rv)
    doc = [child]
    want_locs = [(0,)] if want else []
    if sibling is not None:
        sl, sr, spl, spr = sibling
        sib = {}
        ok = True
        for v, p, orig in ((sl, spl, pl), (sr, spr, pr)):
            if p[0] != orig[0]:
                ok = False
            for k, x in p[2].items():
                sib[k] = D.deep_copy(x)
        if ok:
            # literal producers keep the literal's value on that side
            a = lv if pl[1] is None else sl
            b = rv if pr[1] is None else sr
            sib_want = sem.compare(op, a, b)
            first = R.random() < 0.5
            doc = [sib, child] if first else [child, sib]
            want_locs = [(i,) for i, w in enumerate(([sib_want, want] if first else [want, sib_want])) if w]
    o = mon.observe(jp.find, query, doc)
    rec.monitor("M-find")
    if o[0] != "ok":
        return query, doc, want_locs, mon.describe_outcome(o)
    got = [tuple(n.location) for n in o[1]]
    return query, doc, want_locs, got


def plan(tier, seed, nproc, scale):
    shards = nproc if tier == "quick" else nproc * 4
    return [{"kind": "grid", "seed": "%d/%d" % (seed, i), "shard": i, "shards": shards,
             "combos": int((4 if tier == "quick" else 40) * scale) or 1} for i in range(shards)]


def run_shard(spec, rec):
    import jsonpath_rfc9535 as jp
    R = random.Random(spec["seed"])
    pool = POOL + [NOTHING]
    pairs = list(itertools.product(range(len(pool)), repeat=2))
    cells = {}
    for n, (i, j) in enumerate(pairs):
        if n % spec["shards"] != spec["shard"]:
            continue
        lv, rv = pool[i], pool[j]
        kl, kr = sem.kind(lv), sem.kind(rv)
        possible = kl == kr or {kl, kr} <= {"int", "float"} or {kl, kr} <= {"true", "false"}
        for op in OPS:
            for _ in range(spec["combos"]):
                st = G.Style(R, feat=rec.features)
                pl = R.choice(producers_for(lv, 0, R))
                pr = R.choice(producers_for(rv, 1, R))
                rec.wal([repr(lv), op, repr(rv), pl[0], pr[0]])
                sibling = None
                if R.random() < 0.5 and not pl[0].startswith("abs-") and not pr[0].startswith("abs-"):
                    # a sibling child with other values under the same producers (same member names); absolute
                    # ($[0]...) producers are excluded because they read the first child whatever child is tested
                    sl, sr = pool[R.randrange(len(pool))], pool[R.randrange(len(pool))]
                    spl = next((p for p in producers_for(sl, 0, R) if p[0] == pl[0]), None)
                    spr = next((p for p in producers_for(sr, 1, R) if p[0] == pr[0]), None)
                    if spl is not None and spr is not None:
                        sibling = (sl, sr, spl, spr)
                        rec.feat("with-sibling-child")
                query, child, want, got = one(jp, R, lv, rv, op, pl, pr, rec, st, sibling)
                rec.case((repr(lv), repr(rv), op, pl[0], pr[0]), possible)
                rec.feat("producer:" + pl[0])
                rec.feat("producer:" + pr[0])
                cell = "%s %s %s" % (kl, op, kr)
                cells[cell] = cells.get(cell, 0) + 1
                if possible and want:
                    rec.sample({"query": query, "document": D.short(child), "selected": got})
                if got != want:
                    rec.violation("cmp:%s %s %s" % (kl, op, kr),
                                  {"query": query, "document": jsonable(child), "lhs": repr(lv), "rhs": repr(rv), "op": op,
                                   "producers": [pl[0], pr[0]], "expected_selected": [list(l) for l in want], "observed": jsonable(got)})
    # nested-call sweep: the current node appears only inside a nested function call, several children with other values
    if spec["shard"] == 0:
        for a in range(0, 5):
            for b in range(0, 5):
                for op in OPS:
                    for side in (0, 1):
                        st = G.Style(R, feat=rec.features)
                        lovc = lambda v, s_: ("length-of-value-call", "length(value(@.lenv_%s))" % ("l" if s_ == 0 else "r"), {"lenv_" + ("l" if s_ == 0 else "r"): "y" * v})  # noqa: E731
                        litp = ("literal", None, {})
                        c = (a + 1 + R.randrange(3)) % 5
                        if side == 0:
                            pl, pr, lv, rv, sib = lovc(a, 0), litp, a, b, (c, b, lovc(c, 0), litp)
                        else:
                            pl, pr, lv, rv, sib = litp, lovc(a, 1), b, a, (b, c, litp, lovc(c, 1))
                        query, child, want, got = one(jp, R, lv, rv, op, pl, pr, rec, st, sib)
                        rec.case(("nested", a, b, c, op, side), True)
                        rec.feat("nested-call-sweep")
                        if got != want:
                            rec.violation("cmp:nested-call int %s int" % op, {"query": query, "document": jsonable(child), "op": op,
                                                                              "expected_selected": [list(l) for l in want], "observed": jsonable(got)})
    # sequences: an unequal pair of containers is compared first, then - in the same evaluation - a pair of equal ones (and the
    # other way round): every child gets the table's answer whatever was compared before it
    if spec["shard"] < 4:
        firsts = [([6, True], [5, 1]), ([5, 1], [6, True]), ({"a": 0, "b": True}, {"a": 1, "b": 1}), ([[2], False], [[3], 0]), ([1, [2, 3]], [1, [2]]), ({"a": 1}, {"b": 1}),
                  ([True, 6], [1, 5]), ([1, 2, 3], [1, 2]), ({"k": [1, {"z": False}]}, {"k": [2, {"z": 0}]}), ([0, 0, False], [1, 1, 0])]
        seconds = [([1, 2], [1, 2]), ({"a": [1]}, {"a": [1]}), ([[5], [6]], [[5], [6]]), ({"x": {"y": 1}, "z": 2}, {"z": 2, "x": {"y": 1}}), ([True, 1], [True, 1]), ([], []), ({}, {})]
        n_seq = 0
        for fi, (fl, fr) in enumerate(firsts):
            for si, (sl, sr) in enumerate(seconds):
                for op in ("==", "!=", "<=", ">="):
                    n_seq += 1
                    if n_seq % 4 != spec["shard"]:
                        continue
                    for order in (0, 1):
                        kids = [{"l": D.deep_copy(fl), "r": D.deep_copy(fr)}, {"l": D.deep_copy(sl), "r": D.deep_copy(sr)}]
                        if order:
                            kids.reverse()
                        want = [(i,) for i, k in enumerate(kids) if sem.compare(op, k["l"], k["r"])]
                        query = "$[?@.l %s @.r]" % op
                        o = mon.observe(jp.find, query, kids)
                        rec.monitor("M-find")
                        rec.case(("sequence", fi, si, op, order), True)
                        rec.feat("comparison-sequences")
                        got = [tuple(n.location) for n in o[1]] if o[0] == "ok" else mon.describe_outcome(o)
                        if got != want:
                            rec.violation("cmp:sequence-of-comparisons", {"query": query, "document": jsonable(kids), "op": op, "expected_selected": [list(l) for l in want], "observed": jsonable(got)})
    # deep comparands evaluated from a band of call-stack depths up to the recursion limit: the table's answer, or the
    # evaluation runs out of stack - never another answer
    if spec["shard"] < 4:
        deep = [_nest(n, leaf, kind) for n in (40, 100, 160) for leaf, kind in ((1, "list"), (True, "list"), ([1, 2], "mix"), ({"z": 0}, "dict"))]
        for i_, lv in enumerate(deep):
            for rv in (D.deep_copy(lv), deep[(i_ + 1) % len(deep)]):
                for op in ("==", "!=", "<=", ">"):
                    if (i_ + len(op)) % 4 != spec["shard"]:
                        continue
                    want = sem.compare(op, lv, rv)
                    doc = [{"l": lv, "r": rv}]
                    query = "$[?@.l %s @.r]" % op
                    o = mon.observe(jp.compile, query)
                    if o[0] != "ok":
                        continue
                    c = o[1]
                    for d, oo in [(0, mon._plain(lambda: [tuple(n.location) for n in c.finditer(doc)], ()))] + mon.depth_band(lambda: [tuple(n.location) for n in c.finditer(doc)], (), range(500, 996, 5)):
                        rec.monitor("M-find")
                        rec.case(("deep-band", i_, op, d, lv is rv), True)
                        rec.feat("deep-comparands:" + ("plain" if d == 0 else "deep-stack"))
                        if oo[0] == "exc" and isinstance(oo[1], RecursionError):
                            rec.feat("deep-comparands:ran-out-of-stack")
                            continue
                        got = oo[1] if oo[0] == "ok" else mon.describe_outcome(oo)
                        if got != ([(0,)] if want else []):
                            rec.violation("cmp:deep-comparands-from-deep-stack" if d else "cmp:deep-comparands", {"query": query, "comparand_nesting": "see document", "op": op, "extra_stack_depth": d,
                                          "document": jsonable(doc), "expected_selected": [[0]] if want else [], "observed": jsonable(got)})
                            break
    rec.extra["cell_table"] = cells
    rec.exhaustive = True


def finish(m, tier):
    cells = m["extra"].get("cell_table", {})
    m["extra"]["cells_observed"] = len(cells)
    m["extra"]["cells_total"] = 9 * 9 * 6
    m["extra"]["exhaustive_scope"] = "every ordered pair of the %d pool values x 6 operators (producers sampled)" % (len(POOL) + 1)
    if len(cells) < 9 * 9 * 6:
        return ["only %d of 486 (kind,kind,op) cells observed" % len(cells)]
    return []


def replay(case, rec):
    import jsonpath_rfc9535 as jp
    o = mon.observe(jp.find, case["query"], case["document"])
    rec.monitor("M-find")
    rec.case(case["query"], True)
    rec.case(case["query"] + "#", True)
    got = [list(n.location) for n in o[1]] if o[0] == "ok" else mon.describe_outcome(o)
    if got != case["expected_selected"]:
        rec.violation("cmp:replay", dict(case, observed=got))
