"""C19 — reported error positions are real positions in the query text."""
from __future__ import annotations

import random
import re

from ..gen import queries as G
from ..oracle.sem import BUILTIN_SIGS
from .. import mon
from ..worker import guard, CaseTimeout, jsonable
from . import c04, c05

PROPERTY = "C19"
RULE = ("rejected queries of every error class (lexer error tokens, parser expectations, literal decoding, well-typedness, unknown function, "
        "index range) produced by the C04 rule-violation operators / single edits and the C05 type-chaos generator on derivations rendered "
        "with LF, CRLF, CR, HT and SP at the legal blank-space sites, so the error lands on line 1, 2, 3+ at column 0 and later; plus "
        "multi-line queries whose error is on the first line and raw newlines inside string literals. Oracle: err.token exists, "
        "0 <= err.token.index <= len(query), and the ', line L, column C' suffix of str(err) equals (1 + number of LF before the offset, "
        "offset - offset of the first character of that line) — the convention pinned by the repository's own single-line tests; a lone CR "
        "is accepted under either the LF-only or the universal-newline convention. Non-trivial: >=1 LF before the reported offset; "
        "distinct by string. A scale battery repeats this for offending tokens of 500-70000 characters, errors far into very long queries and nesting of 200-10000 levels (whenever the outcome is a JSONPathError). A concurrent part lets 4-8 threads compile 56 rejected queries (most with the error inside a long string literal) on ONE shared environment with GIL hand-offs injected on lines of the package; every error (class, offset, message with line and column) must equal the one the query gives sequentially.")
ASSUMPTIONS = ["line = 1-based, column = 0-based, as pinned by tests/test_errors.py and tests/test_cli.py", "CR-only line breaks: either convention accepted"]
DECIDING_MONITORS_NOTE = "the concurrent part counts as M-compile-rejected events"
DECIDING_MONITORS = ["M-compile-rejected"]

POS = re.compile(r", line (-?\d+), column (-?\d+)$")


def expected_positions(q, idx):
    """Set of acceptable (line, column) pairs for offset idx."""
    out = set()
    # LF-only
    line = q.count("\n", 0, idx) + 1
    col = idx - (q.rfind("\n", 0, idx) + 1)
    out.add((line, col))
    # universal newlines: \r\n, \r, \n
    line = 1
    start = 0
    i = 0
    while i < idx:
        c = q[i]
        if c == "\r":
            if i + 1 < len(q) and q[i + 1] == "\n":
                if i + 1 < idx:
                    i += 1
                else:
                    break
            line += 1
            start = i + 1
        elif c == "\n":
            line += 1
            start = i + 1
        i += 1
    out.add((line, idx - start))
    return out


def check(jp, rec, text, src):
    from jsonpath_rfc9535 import JSONPathError
    o = mon.observe(jp.compile, text)
    rec.monitor("M-compile")
    if o[0] != "jperr":
        return None
    rec.monitor("M-compile-rejected")
    err = o[1]
    rec.feat("error-class:" + type(err).__name__)
    tok = getattr(err, "token", None)
    try:
        msg = str(err)
    except Exception as e:  # noqa: BLE001
        rec.violation("str-raises", {"query": text, "source": src, "observed": type(e).__name__})
        return False
    wit = {"query": text, "source": src, "error": type(err).__name__, "message": msg[-200:]}
    if tok is None:
        rec.violation("no-token:" + type(err).__name__, wit)
        return False
    idx = getattr(tok, "index", None)
    wit["index"] = idx
    if not isinstance(idx, int) or isinstance(idx, bool) or not 0 <= idx <= len(text):
        rec.violation("offset-outside-query:" + type(err).__name__, wit)
        return False
    m = POS.search(msg)
    if not m:
        rec.violation("no-position-in-message:" + type(err).__name__, wit)
        return False
    got = (int(m.group(1)), int(m.group(2)))
    want = expected_positions(text, idx)
    lf_before = text.count("\n", 0, idx)
    rec.feat("error-line:%s" % (min(got[0], 4) if got in want else "wrong"))
    if got not in want:
        wit["expected_line_column"] = sorted(want)
        wit["observed_line_column"] = list(got)
        if rec.viol_counts.get("line-column-mismatch", 0) == 0 and not getattr(rec, "_shrinking", False):
            from ..shrink import shrink_text

            class _Probe:
                def __init__(self):
                    self.viol_counts = {"line-column-mismatch": 1}
                    self.hit = False
                    self._shrinking = True

                def monitor(self, *a):
                    pass

                def feat(self, *a):
                    pass

                def violation(self, key, w):
                    self.hit = self.hit or key == "line-column-mismatch"

            def still(t):
                p = _Probe()
                check(jp, p, t, src)
                return p.hit
            small = shrink_text(text, still, budget=150)
            if small != text:
                p = _Probe()
                wit["minimised_query"] = small
        rec.violation("line-column-mismatch", wit)
        return False
    return lf_before > 0


def plan(tier, seed, nproc, scale):
    shards = nproc if tier == "quick" else nproc * 4
    n = int((60000 if tier == "quick" else 1200000) * scale)
    specs = [{"kind": "random", "seed": "%d/%d" % (seed, i), "n": n // shards, "shard": i, "shards": shards} for i in range(shards)]
    specs += [{"kind": "threads", "seed": "%d/t%d" % (seed, i), "runs": 3 if tier == "quick" else 12} for i in range(4 if tier == "quick" else nproc)]
    return specs


NL_BLANKS = ["\n", "\n", "\r\n", "\n\n", " \n", "\n ", "\t", " ", "\r", "\n\t\n"]


def multiline(R, q, feat):
    st = G.Style(R, ws=R.choice(["sparse", "dense", "dense", "all"]), feat=feat)
    orig = st.s

    def s(site):
        if st.ws_p and R.random() < st.ws_p:
            b = R.choice(NL_BLANKS)
            return b
        return ""
    st.s = s
    return G.render_query(st, q)


def rejected_pool(R):
    """Rejected queries whose error sits at a known-by-sequential-run position: many are errors inside long string literals."""
    pool = []
    for i in range(40):
        pad = "".join(R.choice("abcdefgh \u00e9") for _ in range(R.randint(5, 60)))
        bad = R.choice(["\x01", "\\z", "\\u12", "\\uD800", "\\uDC00x", "\x1f", "\\ud83d\\u0041", "\\U0041"])
        lead = R.choice(["$", "$.a", "$\n.a\n", "$..b[0]", "$['k', 'l']\n"])
        tmpl = R.choice(["%s['%s%s']", "%s[\"%s%s\"]", "%s[?@.a == '%s%s']", "%s[?match(@.a,\n '%s%s')]", "%s['ok', '%s%s']", "%s[?@.x == 'fine' && @.y == \"%s%s\"]"])
        pool.append(tmpl % (lead, pad, bad))
    pool += ["$.a[?@.b == 01]", "$[?@.a ==\n 1.]", "$.a.b.c[1:2:3:4]", "$..['a' 'b']", "$[?count(@.a) ]x", "$[?nosuch(@.a)]", "$.a\n.b\n[?length(@.*) == 1]", "$[?@.* == 1]",
             "$[1, 9007199254740992]", "$.a b", "$[?@.a == 1 &&]", "$[?!1]", "$.a..", "$[?@.a == 'x' ||\n\n @['y\x00']]", "$['\\uDC00']", "$.k.l.m[?search(@, 'a\\u00')]"]
    return pool


def outcome_of(comp, text):
    try:
        comp(text)
        return ("ok",)
    except Exception as e:  # noqa: BLE001
        tok = getattr(e, "token", None)
        try:
            msg = str(e)
        except Exception as e2:  # noqa: BLE001
            msg = "str raises " + type(e2).__name__
        return (type(e).__name__, getattr(tok, "index", None), msg)


def thread_part(jp, rec, R, spec):
    """Several threads compile rejected queries on ONE shared environment at the same time (GIL hand-offs injected on lines of
    the package): every error must be the one - class, offset, line and column - that the same query gives sequentially."""
    import os
    import sys
    import threading
    from jsonpath_rfc9535 import JSONPathEnvironment
    from .c16 import YieldInjector
    pkg = os.path.dirname(os.path.abspath(jp.__file__))
    old_si = sys.getswitchinterval()
    for run in range(spec["runs"]):
        pool = rejected_pool(R)
        seq_env = JSONPathEnvironment()
        want = {t: outcome_of(seq_env.compile, t) for t in pool}
        env = JSONPathEnvironment()
        nthreads = R.choice([4, 6, 8])
        orders = [R.sample(pool, len(pool)) for _ in range(nthreads)]
        got = [[] for _ in range(nthreads)]
        inj = YieldInjector(pkg, "%s/%d" % (spec["seed"], run), R.choice([0.05, 0.2, 0.5]))
        barrier = threading.Barrier(nthreads)

        def worker(k):
            barrier.wait()
            for t in orders[k]:
                got[k].append((t, outcome_of(env.compile, t)))
        sys.setswitchinterval(1e-6)
        inj.start()
        try:
            ths = [threading.Thread(target=worker, args=(k,), daemon=True) for k in range(nthreads)]
            for th in ths:
                th.start()
            for th in ths:
                th.join(120)
            hung = any(th.is_alive() for th in ths)
        finally:
            inj.stop()
            sys.setswitchinterval(old_si)
        if hung:
            rec.timeout("thread run %d did not finish" % run)
            continue
        rec.feat("thread-runs")
        rec.feat("thread-switches-inside-package", inj.switches)
        rec.extra["switch_sites"] = sorted(set(rec.extra.get("switch_sites", [])) | inj.switch_sites)[:400]
        bad = None
        for k in range(nthreads):
            for t, o in got[k]:
                rec.monitor("M-compile-rejected")
                if o != want[t] and bad is None:
                    bad = (t, o, want[t], k)
                elif o[0] != "ok" and not (isinstance(o[1], int) and 0 <= o[1] <= len(t)) and bad is None:
                    bad = (t, o, want[t], k)
        rec.case(("threads", spec["seed"], run), inj.switches > 0)
        if bad:
            t, o, w, k = bad
            rec.violation("concurrent-compile-error-differs", {"query": t, "threads": nthreads, "observed": jsonable(list(o)), "sequential": jsonable(list(w)),
                                                               "switches_inside_package": inj.switches})
    rec.sample({"thread_runs": spec["runs"], "note": "see features thread-switches-inside-package"}, limit=1)


def scale_battery(jp, rec):
    """Rejected queries whose offending token is very long, whose error sits tens of thousands of characters into the query,
    or which are nested so deeply that the parser may give up: whenever the outcome is a JSONPathError, its position is real."""
    big = []
    for n in (500, 960, 1000, 1100, 5000, 70000):
        big += ["$[?" + "f" * n + "(@.a)]", "$[0" + "1" * n + "]", "$[1:0" + "7" * n + "]", "$." + "a" * n + "[", "$['" + "a" * n + "\x01']", "$[?@.a == '" + "b" * n + "\\z']",
                "$" + ".a" * n + "..", "$" + " " * n + ".a b", "$\n" + ".a\n" * n + "]", "$[?@.a == 1" + " " * n + "&& ]", "$[?" + "nosuch_" * (n // 7) + "(1)]", "$[?count(" + "1" * n + ") == 1]",
                "$[?@.a == " + "9" * n + "." + "]", "$[" + ",".join(["0"] * n) + ",01]", "$[?@." + "k" * n + " == 1 == 2]"]
    for k in (200, 400, 1000, 3000, 10000):
        big += ["$[?" + "(" * k + "@" + ")" * k + "]", "$" + "[?@" * k + "]" * k, "$[?" + "!(" * k + "@" + ")" * k + "]", "$[?" + "(" * k + "@", "$" + "[?@" * k, "$[?" + "length(" * k + "@" + ")" * k + " == 1]",
                "$[?" + "(" * k + "1" + ")" * k + "]", "$[?" + "(" * k + "@.a ==" + ")" * k + "]"]
    # the error at the very end of the query, and characters that mean something to string formatting in the echoed token
    big += [pre + body for pre in ("$['", "$[\"", "$[?@ == 'x", "$.a['k', 'ab", "$[?match(@, \"") for body in ("\\", "ab\\", "\\\\\\", "\\u12", "\\u", "\\ud83d", "\\ud83d\\", "")]
    big += [tmpl.replace("X", x) for x in ("%", "%s", "%d", "%(a)s", "{}", "{0}", "%%", "100%", "%5") for tmpl in ("$[?@.a X 2 == 0]", "$.X", "$[X]", "$['a', X]", "$[?X(@)]", "$[?@ == X]", "$[?@.a == 1 X]", "$X", "X", "$.a\nX", "$[?'X' == @ x]")]
    # parenthesised, negated and chained comparison operands (rejected after the operand itself was parsed), on one and on several lines
    for c_ in ["@.a", "'x'", "1", "length(@.a)", "$.b", "@", "true"]:
        for tmpl in ["$[?(C) == 1]", "$[?1 == (C)]", "$[?((C)) == 1]", "$[?@.x &&\n (C) < 2]", "$[?(C) == (C)]", "$[?!(C) == 1]", "$[?@.a == !C]", "$[?C == 1 == 2]", "$[?@.y ||\n\n 1 < C < 3]",
                     "$[?(C == 1) == true]", "$[?length((C)) == 1]", "$[?count(@.*) == (C)]", "$.a\n[?(C)\n== 1]"]:
            big.append(tmpl.replace("C", c_))
    for t in big:
        rec.wal({"compile": t[:60] + "... (%d characters)" % len(t)})
        try:
            with guard(60):
                r = check(jp, rec, t, "scale")
        except CaseTimeout:
            rec.timeout(t[:60])
            continue
        rec.feat("scale-battery:" + ("not-a-jsonpath-error-or-accepted" if r is None else "position-checked"))
        if r is not None:
            rec.case(("scale", len(t), t[:40]), True)


def run_shard(spec, rec):
    import jsonpath_rfc9535 as jp
    R = random.Random(spec["seed"])
    if spec.get("kind") == "threads":
        thread_part(jp, rec, R, spec)
        return
    if spec.get("shard") == 0:
        scale_battery(jp, rec)
    user = c05.make_registry(R, spec)
    sigs = dict(BUILTIN_SIGS)
    sigs.update(user)
    env, _ = mon.make_env({n_: (p, r, c05.impl_for(r)) for n_, (p, r) in user.items()}, attrs={"min_int_index": -1000, "max_int_index": 1000})
    n = 0
    while n < spec["n"]:
        mode = R.random()
        if mode < 0.6:
            cfg = G.Cfg(filters=True, regex_functions=True, max_depth=2, max_segments=3)
            cfg.regex_pool = cfg.regex_pool + G.HOSTILE_PATTERNS
            gen = G.QGen(R, cfg)
            q = gen.query(root="$")
            text = multiline(R, q, rec.features)
            cands = [t for _, t in c04.violations_of(R, text)]
            for _ in range(6):
                i = R.randrange(len(text) + 1)
                c = R.choice(c04.EDIT_ALPHABET + ["\n", "\n"])
                op = R.choice(["ins", "del", "rep"])
                cands.append(text[:i] + c + text[i:] if op == "ins" else text[:i] + text[i + 1:] if op == "del" else text[:i] + c + text[i + 1:])
            # raw newline inside a string literal
            qi = [i for i, ch in enumerate(text) if ch in "'\""]
            if qi:
                i = R.choice(qi)
                cands.append(text[:i + 1] + "\n" + text[i + 1:])
            target = jp
            src = "grammar"
        else:
            cfg = G.Cfg(filters=True, registry=sigs, regex_functions=True, max_depth=2, max_segments=2)
            cfg.indices = [0, 1, -1, 1000, 1001, -1000, -1001, 5]
            gen = c05.ChaosGen(R, cfg, chaos=R.choice([0.3, 0.6, 0.9]))
            q = ("q", "$", (gen.segment(0, nofilter=True), ("child", (("filter", gen.expr(1)),)), gen.segment(0, nofilter=True)))
            if not G.representable_literals(q):
                continue
            cands = [multiline(R, q, rec.features)]
            target = env
            src = "typing"
        for t in cands:
            if len(t) > 600 or any(0xD800 <= ord(c) <= 0xDFFF for c in t):
                continue
            rec.wal({"compile": t})
            try:
                with guard(30):
                    r = check(target, rec, t, src)
            except CaseTimeout:
                rec.timeout(t)
                continue
            n += 1
            if r is None:
                rec.feat("compiled-ok")
                continue
            rec.case(t, bool(r))
            if r:
                rec.sample({"query": t, "source": src}, limit=8)


def finish(m, tier):
    sw = m["features"].get("thread-switches-inside-package", 0)
    m["extra"]["thread_switches_inside_package"] = sw
    if m["features"].get("thread-runs", 0) and sw == 0:
        return ["the concurrent part observed no thread switch inside package code"]
    return []


def replay(case, rec):
    import jsonpath_rfc9535 as jp
    rec.case("r1", True)
    rec.case("r2", True)
    check(jp, rec, case["query"], case.get("source", "replay"))
