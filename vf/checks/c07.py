"""C07 — index and slice selectors implement RFC 9535 array arithmetic."""
from __future__ import annotations

import itertools
import random

from ..gen import queries as G
from ..oracle import sem
from .. import mon
from ..worker import jsonable

PROPERTY = "C07"
MAXI = 2**53 - 1
RULE = ("[also: arrays of 2047-10007 elements x 60 slices and 10 indices each] "
        "exhaustive grid: array lengths 0..7 x each of start/end/step in {omitted, 0, +-1, +-2, +-3, +-len, +-(len+-1), +-5, +-7, +-(2^53-1)} "
        "(step also 0) and every index from the same set, plus random triples on lengths up to 300 (thorough: more), each rendered with "
        "random legal spelling (omitted parts, trailing colon, blank space); the same selectors applied to objects with numeric-looking "
        "keys, strings and scalars must select nothing. Oracle = verbatim Normalize/Bounds pseudo-code of RFC 9535 2.3.4.2.2. Checked: "
        "locations are the non-negative indices, values are the very element objects, order. Non-trivial: non-empty expected selection "
        "with a negative or omitted component; distinct by (length, selector)."
        " The same selectors inside filters (existence test, comparand, function argument) on non-arrays must select nothing either.")
ASSUMPTIONS = ["oracle vf/oracle/sem.py:slice_indices is the RFC pseudo-code verbatim"]
DECIDING_MONITORS = ["M-find"]


def comps(n):
    s = {None, 0, 1, -1, 2, -2, 3, -3, n, -n, n + 1, -(n + 1), n - 1, -(n - 1), 5, -5, 7, -7, MAXI, -MAXI}
    return sorted(s, key=lambda x: (x is not None, x or 0))


def render_slice(st, a, b, c):
    return G.render_selector(st, ("slice", a, b, c))


def check(jp, rec, text, doc, want_idx, meta):
    o = mon.observe(jp.find, text, doc)
    rec.monitor("M-find")
    if o[0] != "ok":
        rec.violation("exception:" + type(o[1]).__name__, dict(meta, query=text, observed=mon.describe_outcome(o)))
        return
    got = [(n.location, id(n.value)) for n in o[1]]
    want = [((i,), id(doc[i])) for i in want_idx] if isinstance(doc, list) else []
    if got != want:
        exp_l = [[i] for i in want_idx] if isinstance(doc, list) else []
        obs_l = [list(l) for l, _ in got]
        if len(exp_l) + len(obs_l) > 60:
            first = next((k for k, (a_, b_) in enumerate(zip(exp_l, obs_l)) if a_ != b_), min(len(exp_l), len(obs_l)))
            meta = dict(meta, expected_count=len(exp_l), observed_count=len(obs_l), first_difference_at=first)
            exp_l, obs_l = exp_l[max(0, first - 2):first + 3], obs_l[max(0, first - 2):first + 3]
        rec.violation(meta["what"], dict(meta, query=text, expected_locations=exp_l, observed_locations=obs_l))


def plan(tier, seed, nproc, scale):
    shards = nproc if tier == "quick" else nproc * 4
    rnd = int((40000 if tier == "quick" else 3000000) * scale)
    return [{"kind": "grid", "seed": "%d/%d" % (seed, i), "shard": i, "shards": shards, "random": rnd // shards,
             "maxlen": 300 if tier == "quick" else 1000} for i in range(shards)]


def run_shard(spec, rec):
    import jsonpath_rfc9535 as jp
    R = random.Random(spec["seed"])
    n_case = 0
    for n in range(0, 8):
        doc = [[i] for i in range(n)]
        cs = comps(n)
        for a, b, c in itertools.product(cs, cs, cs + [0] if 0 not in cs else cs):
            n_case += 1
            if n_case % spec["shards"] != spec["shard"]:
                continue
            st = G.Style(R, feat=rec.features)
            text = "$[" + st.s("bracket-after-open") + render_slice(st, a, b, c) + st.s("bracket-before-close") + "]"
            want = sem.slice_indices_capped(n, a, b, c)
            if n <= 7 and all(x is None or abs(x) < 50 for x in (a, b, c)):
                assert want == sem.slice_indices(n, a, b, c)
            nontrivial = bool(want) and any(x is None or x < 0 for x in (a, b, c))
            rec.case(("slice", n, a, b, c), nontrivial)
            if nontrivial:
                rec.sample({"query": text, "length": n, "selects": want})
            check(jp, rec, text, doc, want, {"what": "slice", "length": n, "slice": [a, b, c]})
        for i in [x for x in cs if x is not None]:
            n_case += 1
            if n_case % spec["shards"] != spec["shard"]:
                continue
            j = i if i >= 0 else n + i
            want = [j] if 0 <= j < n else []
            st = G.Style(R, feat=rec.features)
            text = "$[" + st.s("bracket-after-open") + str(i) + st.s("bracket-before-close") + "]"
            rec.case(("index", n, i), bool(want) and i < 0)
            check(jp, rec, text, doc, want, {"what": "index", "length": n, "index": i})
    rec.exhaustive = True
    # non-arrays: nothing is selected
    others = [{"0": 1, "1": 2, "-1": 3, "2": 4}, "abcdef", 5, 1.5, None, True, {}, ""]
    for doc in others:
        for sel in ["0", "1", "-1", ":", "::-1", "0:2", "1:", ":-1:1", "-2:"]:
            n_case += 1
            if n_case % spec["shards"] != spec["shard"]:
                continue
            text = "$[%s]" % sel
            rec.case(("nonarray", repr(doc), sel), False)
            rec.feat("nonarray:" + type(doc).__name__)
            check(jp, rec, text, doc, [], {"what": "non-array", "document": jsonable(doc)})
            # one level down as well (a member/element that is not an array)
            check(jp, rec, "$[*][%s]" % sel, [doc], [], {"what": "non-array-child", "document": jsonable([doc])})
            # and inside filters: as an existence test, as a comparand and as a function argument
            for tmpl in ("$[?@[%s]]", "$[?$[0][%s]]", "$[?count(@[%s]) > 0]", "$[?@.k[%s]]"):
                if ":" in sel and "count" not in tmpl and False:
                    continue
                check(jp, rec, tmpl % sel, [doc] if ".k" not in tmpl else [{"k": doc}], [], {"what": "non-array-in-filter", "document": jsonable([doc])})
            if ":" not in sel:
                for tmpl in ("$[?@[%s] == 'a']", "$[?length(@[%s]) == 1]", "$[?@[%s] != 0]"):
                    want_idx = [0] if "!=" in tmpl else []   # nothing != 0 holds, so the child is selected
                    check(jp, rec, tmpl % sel, [doc], want_idx, {"what": "non-array-in-filter", "document": jsonable([doc])})
    # index and slice selectors next to other selectors in one bracketed selection (each selector selects independently)
    if spec["shard"] % 4 == 0:
        for n in (0, 1, 3, 5):
            doc = [[i] for i in range(n)]
            for a_sel, a_idx in [("1", lambda n: [1] if n > 1 else []), ("-1", lambda n: [n - 1] if n else []), ("0:2", lambda n: list(range(min(2, n)))),
                                 ("::-1", lambda n: list(range(n - 1, -1, -1))), ("1:", lambda n: list(range(1, n))), (":-1", lambda n: list(range(0, max(0, n - 1))))]:
                for tmpl, extra in (("$[%s, 'a']", lambda n: []), ("$['a', %s]", lambda n: []), ("$[%s, *]", lambda n: list(range(n))), ("$[*, %s]", None), ("$[%s, %s]", "twice"),
                                    ("$['k', %s, \"x\"]", lambda n: []), ("$[?@[0] > 100, %s]", lambda n: [])):
                    if extra == "twice":
                        text, want = tmpl % (a_sel, a_sel), a_idx(n) + a_idx(n)
                    elif extra is None:
                        text, want = tmpl % a_sel, list(range(n)) + a_idx(n)
                    else:
                        text, want = tmpl % a_sel, a_idx(n) + extra(n)
                    rec.case(("multi", n, text), bool(want))
                    rec.feat("multi-selector")
                    check(jp, rec, text, doc, want, {"what": "slice", "length": n, "selection": text})
    # one compiled query applied to arrays of different lengths one after the other (nothing worked out for one array
    # may be reused for the next)
    if spec["shard"] % 4 == 1:
        for a, b, c in [(1, 4, None), (0, 3, None), (None, -1, None), (1, -1, None), (2, 5, 1), (0, 2, 2), (None, 4, None), (1, None, None), (-2, None, None), (None, None, -1), (3, 0, -1),
                        (0, 1, None), (1, 3, None), (2, 4, None), (None, 2, None), (-3, -1, None)]:
            st = G.Style(R, feat=None)
            text = "$[" + render_slice(st, a, b, c) + "]"
            o = mon.observe(jp.compile, text)
            if o[0] != "ok":
                continue
            q = o[1]
            for trial in range(6):
                lengths = [R.choice([0, 1, 2, 3, 4, 5, 6, 8, 12]) for _ in range(6)]
                if trial == 0 and b is not None and b > 0:
                    lengths = [b - 1, b + 3, b, b + 1, 0, b + 5]
                same_object = trial % 2 == 1   # the very same list object, grown and shrunk in place between applications
                held = []
                for n in lengths:
                    n = max(0, n)
                    if same_object:
                        del held[n:]
                        held.extend([i] for i in range(len(held), n))
                        doc = held
                    else:
                        doc = [[i] for i in range(n)]
                    want = sem.slice_indices_capped(n, a, b, c)
                    o2 = mon.observe(lambda: list(q.finditer(doc)))
                    rec.monitor("M-find")
                    rec.case(("compiled-reuse", a, b, c, trial, n), True)
                    rec.feat("compiled-query-reused-on-other-length")
                    got = [n_.location for n_ in o2[1]] if o2[0] == "ok" else mon.describe_outcome(o2)
                    if got != [(i,) for i in want]:
                        rec.violation("slice-after-other-lengths", {"what": "slice", "query": text, "lengths_applied_in_order": lengths, "length": n, "expected_locations": [[i] for i in want],
                                                                   "observed_locations": jsonable(got)})
                        break
    # large arrays: the same arithmetic on thousands of elements (power-of-two lengths and their neighbours)
    big = [2047, 2048, 2049, 4096, 5000, 10007]
    for bi, n in enumerate(big):
        if bi % min(spec["shards"], len(big)) != spec["shard"] % min(spec["shards"], len(big)) or spec["shard"] >= len(big):
            continue
        doc = [[i] for i in range(n)]
        parts = [None, 0, 1, -1, n, -n, n - 1, 1 - n, 2048, -2048, 2049, n // 2, -(n // 2), 4097, MAXI, -MAXI]
        for a, b, c in [(None, None, -1), (None, None, 1), (None, None, -2), (None, None, 2), (None, 0, -1), (n - 1, None, -1), (n, 0, -1), (None, None, -3), (None, None, 2048), (None, None, -2048),
                        (None, None, -2049), (0, None, 1), (1, None, None), (None, -1, None), (-1, None, -1), (None, None, 4096), (2048, None, -1), (2049, 0, -1), (None, 2048, None), (2047, 2049, None)] + \
                       [(R.choice(parts), R.choice(parts), R.choice([None, 1, -1, 2, -2, 3, -3, 7, -7, 2048, -2048, 1000, -1000])) for _ in range(40)]:
            st = G.Style(R, feat=rec.features)
            text = "$[" + render_slice(st, a, b, c) + "]"
            want = sem.slice_indices_capped(n, a, b, c)
            rec.case(("big-slice", n, a, b, c), bool(want))
            rec.feat("big-array")
            check(jp, rec, text, doc, want, {"what": "slice", "length": n, "slice": [a, b, c]})
        for i in (0, -1, n - 1, -n, n, -n - 1, 2048, -2048, 2047, -2049):
            j = i if i >= 0 else n + i
            check(jp, rec, "$[%d]" % i, doc, [j] if 0 <= j < n else [], {"what": "index", "length": n, "index": i})
            rec.case(("big-index", n, i), True)
    # random
    for _ in range(spec["random"]):
        n = R.choice([R.randint(0, 12), R.randint(0, spec["maxlen"])])
        doc = [[i] for i in range(n)]

        def part(zero_ok=False):
            r = R.random()
            if r < 0.2:
                return None
            if r < 0.3:
                return R.choice([MAXI, -MAXI, n, -n, n + 1, -n - 1])
            v = R.randint(-n - 3, n + 3)
            return v
        a, b, c = part(), part(), part()
        if c is not None and R.random() < 0.5:
            c = R.choice([1, -1, 2, -2, 3, -3, 7, -7, 0, n, -n, MAXI, -MAXI])
        st = G.Style(R, feat=rec.features)
        if R.random() < 0.8:
            text = "$[" + st.s("bracket-after-open") + render_slice(st, a, b, c) + st.s("bracket-before-close") + "]"
            want = sem.slice_indices_capped(n, a, b, c)
            nontrivial = bool(want) and any(x is None or x < 0 for x in (a, b, c))
            rec.case(("slice", n, a, b, c), nontrivial)
            check(jp, rec, text, doc, want, {"what": "slice", "length": n, "slice": [a, b, c]})
        else:
            i = a if a is not None else 0
            j = i if i >= 0 else n + i
            want = [j] if 0 <= j < n else []
            rec.case(("index", n, i), bool(want) and i < 0)
            check(jp, rec, "$[%d]" % i, doc, want, {"what": "index", "length": n, "index": i})


def finish(m, tier):
    m["extra"]["exhaustive_scope"] = "lengths 0..7 x the stated component grid (slices and indices); random part is sampled"
    return []


def replay(case, rec):
    import jsonpath_rfc9535 as jp
    rec.case("r1", True)
    rec.case("r2", True)
    if "length" in case:
        n = case["length"]
        doc = [[i] for i in range(n)]
        if case["what"] == "slice":
            want = sem.slice_indices_capped(n, *case["slice"])
        else:
            i = case["index"]
            j = i if i >= 0 else n + i
            want = [j] if 0 <= j < n else []
    else:
        doc, want = case["document"], []
    check(jp, rec, case["query"], doc, want, {k: v for k, v in case.items() if k in ("what", "length", "slice", "index", "document")})
