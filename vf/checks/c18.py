"""C18 — descendant traversal is bounded: deep/cyclic data raises JSONPathRecursionError."""
from __future__ import annotations

import random as _random
import resource

from ..gen import docs as D
from ..oracle import sem
from .. import mon
from ..worker import guard, CaseTimeout, jsonable
from . import c17
from .c17 import PRE_IMPORT, CH  # noqa: F401  (random is replaced by the scripted chooser before import)

PROPERTY = "C18"
RULE = ("environments with max_recursion_depth in {1..8, 20, 50, 100, 400, 1500, 3000}; acyclic shapes with container nesting limit-2..limit+2 "
        "(array/object mixes; the deep branch first, in the middle or last among wide shallow siblings; scalar, null, empty array or "
        "empty object at the bottom) and cyclic structures (self-loop array/object, 2- and 3-cycles through both kinds, a cycle hanging "
        "under a finite prefix, branching cycles a=[a,a]); queries $..*, $..[*], $..a, $..[0], $..[?@], $.x..* ; deterministic mode and "
        "nondeterministic mode (all choice leaves for small inputs with limit <= 4, otherwise sampled scripts, via the scripted chooser). "
        "Oracle: nesting <= limit => the run completes and the result is a permutation of (deterministic: equal to) the reference result; "
        "nesting > limit or cyclic => JSONPathRecursionError — never RecursionError, another exception, or more than "
        "B = 200 x limit x containers nodes without an error (logical step bound; wall clock is only a watchdog, memory is capped by "
        "RLIMIT_AS). Non-trivial: nesting within +-1 of the limit, or cyclic; distinct by (shape, limit, mode, query)."
        " Compiled queries are kept and re-used across cases of one environment (after errors and abandoned runs); limits are configured by subclass or on a used instance; shapes include bushy trees, aliased (DAG) data and descendant segments inside filter tests with an early match before the deep part.")
ASSUMPTIONS = ["container nesting: the value the descendant segment is applied to has nesting 1 if it is a container without container children",
               "limits up to 3000 (the deterministic traversal keeps its own stack; the interpreter recursion limit of the worker is the default 1000)"]
DECIDING_MONITORS = ["M-descend"]
STALL_S = 600


def nesting(v, seen=None):
    """Container nesting depth (acyclic values)."""
    if not isinstance(v, (list, dict)):
        return 0
    kids = v.values() if isinstance(v, dict) else v
    best = 0
    stack = [(v, 1)]
    while stack:
        x, d = stack.pop()
        best = max(best, d)
        for c in (x.values() if isinstance(x, dict) else x):
            if isinstance(c, (list, dict)):
                stack.append((c, d + 1))
    return best


def chain(R, depth, bottom, kinds):
    """A chain of `depth` nested containers; `bottom` goes into the innermost one."""
    inner = [] if kinds[(depth - 1) % len(kinds)] == "l" else {}
    if bottom != "empty":
        if isinstance(inner, list):
            inner.append(bottom)
        else:
            inner["a"] = bottom
    cur = inner
    for i in reversed(range(depth - 1)):
        k = kinds[i % len(kinds)]
        cur = [cur] if k == "l" else {"a": cur}
    return cur


def bushy(R, depth, width):
    """A tree of nesting exactly `depth` in which every level has several sibling containers."""
    def sub(d, spine):
        # a container of nesting exactly d (if spine) or at most d
        kids = []
        if d > 1:
            n = R.randint(2, width)
            where = R.randrange(n)
            for i in range(n):
                if spine and i == where:
                    kids.append(sub(d - 1, True))
                elif R.random() < 0.8:
                    kids.append(sub(R.randint(1, d - 1), False))
                else:
                    kids.append(R.choice([1, None, "s"]))
        else:
            kids = [R.choice([1, None, "s"]) for _ in range(R.randint(0, 2))]
        if R.random() < 0.35:
            return {"k%d" % i: k for i, k in enumerate(kids)}
        return kids
    return sub(depth, True)


def aliased(R, depth):
    """Acyclic data in which one container object is referenced from several places (a DAG, nesting exactly depth)."""
    shared = chain(R, max(1, depth - 1), R.choice([1, "empty", None]), R.choice(["l", "d", "ld"]))
    if depth == 1:
        return [1, 2], "aliased"
    top = R.choice([lambda: {"a": shared, "b": shared}, lambda: [shared, shared, 1], lambda: {"a": shared, "b": [1], "c": shared}, lambda: [shared, 0, shared, shared]])()
    return top, "aliased"


def acyclic_shape(R, depth):
    if depth <= 7 and R.random() < 0.35:
        return bushy(R, depth, R.choice([2, 3, 6])), "bushy"
    if R.random() < 0.12:
        return aliased(R, depth)
    kinds = R.choice(["l", "d", "ld", "dl", "lld", "ddl"])
    bottom = R.choice([1, None, "x", "empty", "empty", True])
    core = chain(R, depth, bottom, kinds)
    form = R.choice(["bare", "first", "middle", "last", "wide"])
    if form == "bare" or depth < 2:
        return core, form
    # put the deep chain among wide shallow siblings at the top level (total nesting unchanged)
    sib = lambda: R.choice([1, "s", None, [], {}, [1, 2], {"a": 1}, [[]]][: (8 if depth >= 3 else 5)])  # noqa: E731
    inner = core[0] if isinstance(core, list) else core["a"]
    if form == "first":
        top = [inner, sib(), sib()]
    elif form == "middle":
        top = [sib(), inner, sib()]
    elif form == "last":
        top = [sib(), sib(), inner]
    else:
        top = [sib() for _ in range(6)] + [inner] + [sib() for _ in range(6)]
    if R.random() < 0.4:
        top = {"k%d" % i: x for i, x in enumerate(top)}
        if R.random() < 0.5:
            top = dict(reversed(list(top.items())))
    return top, form


def cyclic_shape(R):
    kind = R.choice(["self-list", "self-dict", "two-cycle", "three-cycle", "under-prefix", "branching", "branching-dict", "branching-3",
                     "two-cycle-lists", "three-cycle-lists", "two-cycle-dicts", "four-cycle-dicts"])
    if kind == "two-cycle-lists":
        a, b = [], []
        a.append(b)
        b.append(a)
        return a, kind, 2, 1
    if kind == "three-cycle-lists":
        a, b, c = [], [], []
        a.append(b)
        b.append(c)
        c.append(a)
        return a, kind, 3, 1
    if kind == "two-cycle-dicts":
        a, b = {}, {}
        a["x"] = b
        b["x"] = a
        return a, kind, 2, 1
    if kind == "four-cycle-dicts":
        ds = [{} for _ in range(4)]
        for i_, d_ in enumerate(ds):
            d_["n"] = ds[(i_ + 1) % 4]
        return ds[0], kind, 4, 1
    if kind == "self-list":
        a = [1]
        a.append(a)
        return a, kind, 1, 1
    if kind == "self-dict":
        a = {"x": 1}
        a["self"] = a
        return a, kind, 1, 1
    if kind == "two-cycle":
        a, b = [], {}
        a.append(b)
        b["a"] = a
        return a, kind, 2, 1
    if kind == "three-cycle":
        a, b, c = [0], {"v": 1}, [2]
        a.append(b)
        b["c"] = c
        c.append(a)
        return a, kind, 3, 1
    if kind == "under-prefix":
        a = [1]
        a.append(a)
        return {"p": [{"q": a}, 1], "z": 2}, kind, 4, 1
    if kind == "branching":
        a = []
        a.append(a)
        a.append(a)
        return a, kind, 1, 2
    if kind == "branching-dict":
        a = {}
        a["l"] = a
        a["r"] = a
        return a, kind, 1, 2
    a = []
    a += [a, a, a]
    return a, kind, 1, 3


QUERIES = ["$..*", "$..[*]", "$..a", "$..[0]", "$..[?@]", "$..['a',0]"]


def run_case(rec, env, det_ref, text, doc, limit, mode, cyclic, containers, branching, N, script_seed, meta):
    budget = 200 * limit * max(1, containers)
    # compiled queries are kept and re-used across cases of the same environment: a traversal that was cut short by an
    # error (or abandoned) must not influence the next application
    cache = env.__dict__.setdefault("_vf_compiled", {})
    if text not in cache:
        o = mon.observe(env.compile, text)
        if o[0] != "ok":
            return
        cache[text] = o[1]
    q = cache[text]
    count = 0
    out = []
    outcome = None
    c17.CH.trace = []
    if mode == "nondeterministic" and script_seed is not None:
        c17.CH.rand = _random.Random(script_seed)
    kept = []
    try:
        for n in q.finditer(doc):
            count += 1
            if not cyclic and count <= 5000:
                kept.append(n)
            if count > budget:
                outcome = ("budget", None)
                break
            if count % 256 == 0:
                rec.heartbeat()
        else:
            outcome = ("completed", None)
        # locations and paths are read after the traversal, for every other case deepest node first (nothing may depend on
        # the order in which a caller looks at the nodes)
        order = list(range(len(kept)))
        if (len(kept) + limit) % 2:
            order.reverse()
        out = [None] * len(kept)
        for i_ in order:
            out[i_] = (tuple(kept[i_].location), id(kept[i_].value))
        if kept:
            kept[order[0]].path()
    except Exception as e:  # noqa: BLE001
        outcome = ("raised", type(e).__name__)
    finally:
        c17.CH.rand = None
    rec.monitor("M-descend")
    wit = dict(meta, query=text, limit=limit, mode=mode, nodes_yielded=count, outcome=list(outcome))
    must_raise = cyclic or N > limit
    if must_raise:
        if outcome == ("raised", "JSONPathRecursionError"):
            return "raised"
        if outcome[0] == "budget":
            if mode == "nondeterministic" and cyclic and branching >= 2:
                rec.violation("nondet-branching-cycle", dict(wit, budget=budget))
            else:
                rec.violation("no-error-within-step-budget", dict(wit, budget=budget))
        elif outcome[0] == "completed":
            rec.violation("too-deep-data-traversed-without-error", wit)
        else:
            rec.violation("wrong-exception:" + str(outcome[1]), wit)
        return "bad"
    # within the limit: must complete with the full result
    if outcome[0] != "completed":
        rec.violation("data-within-limit-refused:" + str(outcome[1] or outcome[0]), wit)
        return "bad"
    want = det_ref
    if count != len(want):
        rec.violation("result-size-differs-within-limit", dict(wit, expected_nodes=len(want)))
        return "bad"
    want = want[:5000]   # only the first 5000 nodes are kept for comparison
    if mode == "deterministic":
        if out != want:
            rec.violation("result-differs-within-limit", dict(wit, expected_nodes=len(want)))
            return "bad"
    elif count <= 5000 and sorted(out, key=repr) != sorted(want, key=repr):
        rec.violation("result-not-a-permutation-within-limit", dict(wit, expected_nodes=len(want)))
        return "bad"
    return "completed"


def plan(tier, seed, nproc, scale):
    shards = nproc if tier == "quick" else nproc * 4
    n = int((6400 if tier == "quick" else 160000) * scale)
    return [{"kind": "mixed", "seed": "%d/%d" % (seed, i), "n": max(1, n // shards), "big": tier != "quick"} for i in range(shards)]


def run_shard(spec, rec):
    try:
        resource.setrlimit(resource.RLIMIT_AS, (6 * 2**30, 6 * 2**30))
    except (ValueError, OSError):
        pass
    import jsonpath_rfc9535 as jp
    from jsonpath_rfc9535 import JSONPathEnvironment
    R = _random.Random(spec["seed"])
    abn = __import__("vf.oracle.abnf", fromlist=["x"]).get(True)
    model = sem.Model()
    envs = {}

    def env_for(limit, mode):
        k = (limit, mode)
        if k not in envs:
            if R.random() < 0.3:
                # configured on the instance, after the environment was already used with another limit
                e = type("E", (JSONPathEnvironment,), {"nondeterministic": mode == "nondeterministic"})()
                e.max_recursion_depth = R.choice([2, 50, 1000])
                try:
                    e.find("$..*", [[1], {"a": [2]}])
                except Exception:  # noqa: BLE001
                    pass
                e.max_recursion_depth = limit
                rec.feat("limit-configured-on:instance-after-use")
                envs[k] = e
            else:
                envs[k] = type("E", (JSONPathEnvironment,), {"max_recursion_depth": limit, "nondeterministic": mode == "nondeterministic"})()
                rec.feat("limit-configured-on:class")
        return envs[k]
    limits = [1, 2, 3, 4, 5, 6, 7, 8, 20, 50, 100, 400, 1500, 3000]
    for i in range(spec["n"]):
        mode = R.choice(["deterministic", "nondeterministic"])
        text = R.choice(QUERIES)
        if R.random() < 0.72:
            limit = R.choice(limits if mode == "deterministic" else limits[:11])
            if limit > 400 and R.random() < 0.7:
                limit = R.choice(limits[:10])
            N = max(1, limit + R.choice([-2, -1, 0, 0, 1, 1, 2]))
            if limit <= 100 and R.random() < 0.04:
                N = limit + R.choice([1500, 3000, 5000])   # homogeneous nesting far beyond the limit
            doc, form = acyclic_shape(R, N)
            N = nesting(doc)
            prefix = R.random() < 0.15
            if prefix:
                doc = {"x": doc, "y": [[[[1]]]] if limit < 4 else 1}
                text = text.replace("$..", "$.x..")
            elif R.random() < 0.12 and N >= 1:
                # the descendant segment sits inside a filter test; an early match precedes the deep part
                doc = [{"a": 1, "0": 0, "zz": doc}] if R.random() < 0.5 else [[1, {"a": 2}, doc]]
                text = R.choice(["$[?@..a]", "$[?@..[0]]", "$[?@..a || @.q]", "$[?!@..a]", "$[?count(@..a) > 0]", "$[?@..*]"])
                N = N + 1   # the tested child wraps the shape in one more container
                form = form + "+in-filter"
            ast = abn.ast(text)
            want = mon.want_sig(model.find(ast, doc)) if N <= limit else None
            meta = {"shape": "acyclic-%s" % form, "nesting": N, "document": jsonable(doc) if N <= 12 else "<chain of nesting %d>" % N}
            scripts = [None] if mode == "deterministic" else [R.getrandbits(32) for _ in range(3)]
            for sc in scripts:
                rec.wal({"query": text, "limit": limit, "nesting": N, "mode": mode})
                try:
                    with guard(240):
                        r = run_case(rec, env_for(limit, mode), want, text, doc, limit, mode, False, 1, 0, N, sc, meta)
                except CaseTimeout:
                    rec.timeout("%s limit=%d nesting=%d %s" % (text, limit, N, mode))
                    continue
                rec.case((text, limit, N, form, mode, sc, D.short(doc, 300) if N <= 30 else "deep"), abs(N - limit) <= 1)
                rec.feat("acyclic:%s:%s:%s" % (mode, "over" if N > limit else "within", r))
                if abs(N - limit) <= 1 and r:
                    rec.sample({"query": text, "limit": limit, "nesting": N, "mode": mode, "shape": form, "outcome": r}, limit=6)
        else:
            doc, kind, containers, branching = cyclic_shape(R)
            limit = R.choice([1, 2, 3, 5, 8, 20, 50, 100] if not (mode == "nondeterministic" and branching >= 2) else [1, 2, 3, 5, 8, 12])
            if mode == "deterministic" and R.random() < 0.1:
                limit = R.choice([400, 1500, 3000])
            if kind == "under-prefix" and R.random() < 0.5:
                text = text.replace("$..", "$.p..")
            meta = {"shape": "cyclic-" + kind}
            sc = None if mode == "deterministic" else R.getrandbits(32)
            rec.wal({"query": text, "limit": limit, "cyclic": kind, "mode": mode})
            try:
                with guard(400):
                    r = run_case(rec, env_for(limit, mode), None, text, doc, limit, mode, True, containers, branching, None, sc, meta)
            except CaseTimeout:
                rec.timeout("%s limit=%d %s %s" % (text, limit, kind, mode))
                continue
            rec.case((text, limit, kind, mode, sc), True)
            rec.feat("cyclic:%s:%s:%s" % (mode, kind, r))
            if r:
                rec.sample({"query": text, "limit": limit, "structure": kind, "mode": mode, "outcome": r}, limit=6)
    # a document traversed completely first and then deepened (or made cyclic) in place, same compiled query
    for _ in range(6):
        limit = R.choice([3, 5, 8, 20])
        mode = R.choice(["deterministic", "nondeterministic"])
        doc = chain(R, max(1, limit - 1), 1, R.choice(["l", "d", "ld"]))
        env = env_for(limit, mode)
        text = R.choice(["$..*", "$..[*]", "$..[?@]"])
        want = mon.want_sig(model.find(abn.ast(text), doc))
        try:
            with guard(120):
                r1 = run_case(rec, env, want, text, doc, limit, mode, False, 1, 0, nesting(doc), R.getrandbits(32), {"shape": "then-deepened:first"})
                # deepen in place: the innermost container gets a chain that exceeds the limit, or a reference back to the top
                inner = doc
                while True:
                    nxt = [c for c in (inner.values() if isinstance(inner, dict) else inner) if isinstance(c, (list, dict))]
                    if not nxt:
                        break
                    inner = nxt[0]
                extra = doc if R.random() < 0.5 else chain(R, 4, 1, "l")
                if isinstance(inner, list):
                    inner.append(extra)
                else:
                    inner["deeper"] = extra
                r2 = run_case(rec, env, None, text, doc, limit, mode, extra is doc, 1, 1, nesting(doc) if extra is not doc else None, R.getrandbits(32),
                              {"shape": "then-deepened:second (same document object, same compiled query)"})
        except CaseTimeout:
            rec.timeout("deepened in place")
            continue
        rec.case(("deepened", limit, mode, text), True)
        rec.feat("deepened-in-place:%s:%s->%s" % (mode, r1, r2))
    # wide but shallow data: the limit is about nesting, however many elements there are side by side
    for limit, width in ((1, 250), (2, 450), (3, 700), (5, 1500), (100, 12000)):
        for mode in ("deterministic", "nondeterministic"):
            if limit == 100 and str(spec["seed"]).split("/")[-1] != "0":
                continue
            inner = 0
            for _ in range(limit - 1 if limit < 100 else 2):
                inner = [inner]
            doc = [D.deep_copy(inner) if limit > 1 else i for i in range(width)]
            text = R.choice(["$..*", "$..[*]", "$..[0]"])
            want = mon.want_sig(model.find(abn.ast(text), doc))
            try:
                with guard(240):
                    r = run_case(rec, env_for(limit, mode), want, text, doc, limit, mode, False, width, 0, nesting(doc), R.getrandbits(32),
                                 {"shape": "wide-shallow: array of %d elements, nesting %d" % (width, nesting(doc))})
            except CaseTimeout:
                rec.timeout("wide-shallow limit=%d width=%d %s" % (limit, width, mode))
                continue
            rec.case(("wide-shallow", limit, width, mode, text), True)
            rec.feat("wide-shallow:%s:%s" % (mode, r))
    # adversarial choice script: always "visit the children later" (pure breadth-first) on a branching cycle
    for limit in (R.choice([13, 14]), R.choice([15, 16])):
        doc, kind, containers, branching = cyclic_shape(_random.Random(5))
        while branching < 2:
            doc, kind, containers, branching = cyclic_shape(R)
        c17.CH.policy = lambda n: 1 if n == 2 else 0
        try:
            with guard(300):
                r = run_case(rec, env_for(limit, "nondeterministic"), None, "$..*", doc, limit, "nondeterministic", True, containers, branching, None, None,
                             {"shape": "cyclic-" + kind, "choice_script": "always visit-later (breadth-first)"})
        except CaseTimeout:
            rec.timeout("adversarial script limit=%d" % limit)
        finally:
            c17.CH.policy = None
        rec.case(("adversarial", limit, kind), True)
        rec.feat("cyclic:nondeterministic:%s:always-later-script:%s" % (kind, r))
    # exhaustive choice trees for small limits (nondeterministic mode)
    from .c17 import enumerate_leaves
    for limit in (1, 2, 3, 4):
        env = env_for(limit, "nondeterministic")
        for N in (limit - 1, limit, limit + 1):
            if N < 1 or R.random() < 0.5:
                continue
            doc, form = acyclic_shape(R, N)
            N2 = nesting(doc)
            q = env.compile("$..*")
            try:
                with guard(300):
                    results, leaves, complete, controlled, err = enumerate_leaves(q, doc, 3000)
            except CaseTimeout:
                continue
            rec.monitor("M-descend", leaves)
            rec.feat("choice-tree-leaves", leaves)
            rec.case(("tree", limit, D.short(doc, 300) if N2 <= 30 else "deep"), True)
            errs = {r for r in results if r and r[0] == "ERR"}
            oks = {r for r in results if not (r and r[0] == "ERR")}
            wit = {"query": "$..*", "limit": limit, "nesting": N2, "document": jsonable(doc), "leaves": leaves, "mode": "nondeterministic (all choice outcomes)"}
            if N2 <= limit and errs:
                rec.violation("data-within-limit-refused-on-some-random-outcome", dict(wit, errors=sorted(map(str, errs))[:3]))
            if N2 > limit and (oks or any(r != ("ERR", "JSONPathRecursionError") for r in errs)):
                rec.violation("too-deep-data-traversed-on-some-random-outcome", dict(wit, completed_outcomes=len(oks), errors=sorted(map(str, errs))[:3]))


def finish(m, tier):
    m["extra"]["choice_tree_leaves"] = m["features"].get("choice-tree-leaves", 0)
    return []


def on_worker_failure(f):
    if f["kind"] == "died":
        err = f.get("stderr") or ""
        if "MemoryError" in err or (isinstance(f.get("rc"), int) and f["rc"] < 0):
            return ("violation", "worker-died-memory-or-signal", {"last_case": f.get("last_case"), "stderr": err[-600:]})
    return None


def replay(case, rec):
    rec.case("r1", True)
    rec.case("r2", True)
    rec.note("C18 witnesses name the shape, limit, mode and query; cyclic structures are rebuilt by cyclic_shape(); re-run the check with the same seed")
