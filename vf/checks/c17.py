"""C17 — nondeterministic mode only ever produces orderings RFC 9535 allows, and all of them."""
from __future__ import annotations

import random as _random

from ..gen import queries as G
from ..gen import docs as D
from ..oracle import sem
from ..oracle.order import Orders, TooBig
from .. import mon
from ..worker import guard, CaseTimeout, jsonable

PROPERTY = "C17"
RULE = ("the stdlib random functions are replaced (before the package is imported) by an enumerating chooser, so every random decision of the "
        "evaluator (member shuffles, visit-now-or-later coin flips, queue interleavings) is scripted; the whole choice tree of a "
        "(query, value) is walked depth-first on the real code when it has <= 6000 leaves (small inputs: <=6 containers, objects <=3 "
        "members), larger inputs get 40 random scripts. VALIDITY (every leaf): the result must belong to the set of nodelists RFC 9535 "
        "permits (all linear extensions of {node before its descendants, array element i before i+1} x all member orders per visited "
        "object, per-node selector results contiguous, segments composed), or, where that set is too large to build, be a permutation of "
        "the deterministic result with equal multiplicities. EXHAUSTIVENESS (fully enumerated inputs): every permitted nodelist is "
        "produced by some leaf; a missing ordering that the documented queue algorithm (own model of utils/nondeterministic_descent.py) "
        "cannot produce is the known finding, a missing ordering that algorithm does produce is a violation. Every 7th leaf is run twice "
        "to detect entropy that escapes the chooser (then exhaustiveness is skipped, never failed). Non-trivial: >=2 distinct orderings "
        "observed; distinct by (query, value)."
        " Before each enumeration the same query text is evaluated and abandoned part-way on another document with the same environment.")
ASSUMPTIONS = ["permitted set computed by vf/oracle/order.py from RFC 9535 2.5.2.2 (cross-checked against the permitted-ordering tables of tests/test_nondeterminism.py by ./selfcheck)",
               "filter truth does not depend on member order"]
DECIDING_MONITORS = ["M-leaf"]
STALL_S = 600


class Chooser:
    """Depth-first enumeration of choice sequences; choose(n) replays a prefix and then takes 0."""

    def __init__(self):
        self.prefix = []
        self.trace = []
        self.rand = None
        self.policy = None

    def choose(self, n):
        if n <= 1:
            return 0
        if self.policy is not None:
            v = min(n - 1, self.policy(n))
            self.trace.append((v, n))
            return v
        if self.rand is not None:
            v = self.rand.randrange(n)
            self.trace.append((v, n))
            return v
        i = len(self.trace)
        v = self.prefix[i] if i < len(self.prefix) else 0
        if v >= n:
            v = n - 1   # tree shape changed under replay (uncontrolled entropy); stay in range
        self.trace.append((v, n))
        return v

    def next_prefix(self):
        t = self.trace
        while t and t[-1][0] + 1 >= t[-1][1]:
            t = t[:-1]
        if not t:
            return None
        return [v for v, _ in t[:-1]] + [t[-1][0] + 1]


CH = Chooser()


class Shim:
    def shuffle(self, x):
        for i in reversed(range(1, len(x))):
            j = CH.choose(i + 1)
            x[i], x[j] = x[j], x[i]

    def choice(self, seq):
        return seq[CH.choose(len(seq))]

    def sample(self, population, k, *, counts=None):
        # like the stdlib: the population must be a sequence (dict views and sets are refused since Python 3.11)
        from collections.abc import Sequence
        if not isinstance(population, Sequence):
            raise TypeError("Population must be a sequence.  For dicts or sets, use sorted(d).")
        if not 0 <= k <= len(population):
            raise ValueError("Sample larger than population or is negative")
        # choose among the identity-distinct remaining elements (the evaluator samples from repeated iterator objects)
        groups = {}
        for p in population:
            g = groups.get(id(p))
            if g is None:
                groups[id(p)] = [p, 1]
            else:
                g[1] += 1
        out = []
        for _ in range(k):
            live = [g for g in groups.values() if g[1] > 0]
            g = live[CH.choose(len(live))]
            out.append(g[0])
            g[1] -= 1
        return out

    def random(self):
        return CH.choose(1000) / 1000.0

    def randrange(self, a, b=None, step=1):
        if b is None:
            a, b = 0, a
        return a + CH.choose(max(1, (b - a + step - 1) // step)) * step

    def randint(self, a, b):
        return a + CH.choose(b - a + 1)

    def choices(self, population, weights=None, *, cum_weights=None, k=1):
        return [population[CH.choose(len(population))] for _ in range(k)]

    def getrandbits(self, k):
        return CH.choose(1 << min(k, 16))


def PRE_IMPORT(spec):
    import random
    shim = Shim()
    for name in ("shuffle", "choice", "sample", "random", "randrange", "randint", "choices", "getrandbits"):
        setattr(random, name, getattr(shim, name))


def locs(nodes):
    return tuple(tuple(n.location) for n in nodes)


def enumerate_leaves(q, doc, max_leaves):
    """All results of the real code over the choice tree. Returns (results set, leaves, complete, controlled)."""
    results = {}
    CH.rand = None
    CH.prefix = []
    leaves = 0
    controlled = True
    error = None
    while True:
        CH.trace = []
        try:
            r = locs(q.find(doc))
        except Exception as e:  # noqa: BLE001
            r = ("ERR", type(e).__name__)
            error = r
        leaves += 1
        results[r] = results.get(r, 0) + 1
        trace = list(CH.trace)
        if leaves % 7 == 0:
            CH.prefix = [v for v, _ in trace]
            CH.trace = []
            try:
                r2 = locs(q.find(doc))
            except Exception as e:  # noqa: BLE001
                r2 = ("ERR", type(e).__name__)
            if r2 != r:
                controlled = False
            CH.trace = trace
        nxt = CH.next_prefix()
        if nxt is None:
            return results, leaves, True, controlled, error
        if leaves >= max_leaves:
            return results, leaves, False, controlled, error
        CH.prefix = nxt


def sample_leaves(q, doc, n, R):
    results = {}
    error = None
    for _ in range(n):
        CH.rand = _random.Random(R.getrandbits(64))
        CH.trace = []
        try:
            r = locs(q.find(doc))
        except Exception as e:  # noqa: BLE001
            r = ("ERR", type(e).__name__)
            error = r
        results[r] = results.get(r, 0) + 1
    CH.rand = None
    return results, error


def small_doc(R, max_containers=6):
    budget = [R.randint(2, max_containers)]
    leaves = [1, 2, "a", None, True]

    def build(depth):
        budget[0] -= 1
        kind = R.choice(["list", "list", "dict"])
        n = R.randint(0, 3)
        kids = []
        for _ in range(n):
            if budget[0] > 0 and depth < 4 and R.random() < 0.6:
                kids.append(build(depth + 1))
            else:
                kids.append(R.choice(leaves))
        if kind == "list":
            return kids
        names = R.sample(["a", "b", "c", "d"], k=len(kids))
        return dict(zip(names, kids))
    return build(0)


def tree_shapes(n):
    """All rooted ordered trees with n nodes, as nested lists (leaf containers hold one scalar)."""
    if n == 1:
        return [[1]]
    out = []
    # forests of total size n-1 as children of the root
    def forests(m):
        if m == 0:
            yield []
            return
        for first in range(1, m + 1):
            for t in tree_shapes(first):
                for rest in forests(m - first):
                    yield [t] + rest
    for f in forests(n - 1):
        out.append(f)
    return out


def dictify(R, t, p):
    """Turn some list nodes into objects (members named a, b, c ...)."""
    if not isinstance(t, list):
        return t
    kids = [dictify(R, x, p) for x in t]
    if R.random() < p and len(kids) <= 5:
        return {"abcde"[i]: k for i, k in enumerate(kids)}
    return kids


SHAPES = [t for n in range(2, 8) for t in tree_shapes(n)]


QUERIES_SMALL = ["$..[*]", "$..*", "$.*", "$[*]", "$..a", "$..[0]", "$..[?@]", "$..[*,*]", "$..[0,*]", "$.*.*", "$[*]..[*]", "$..[?@.a]", "$..[?@[0]]", "$[?@]..*",
                 "$..[?@ == 1]", "$..[::-1]", "$..['a','b']", "$.*[*]", "$..[?count(@.*) > 0]", "$[*,*]",
                 "$..[?@ == $[0]]", "$..[?$.a]", "$..[?@.a == $.a]", "$..[?count($..*) > 2]", "$..[?@ != $.b]", "$[*]..[?$[0]]"]


def plan(tier, seed, nproc, scale):
    shards = nproc if tier == "quick" else nproc * 4
    small = int((480 if tier == "quick" else 12000) * scale)
    large = int((320 if tier == "quick" else 16000) * scale)
    specs = [{"kind": "mixed", "seed": "%d/%d" % (seed, i), "small": max(1, small // shards), "large": max(1, large // shards),
              "max_leaves": 6000 if tier == "quick" else 40000} for i in range(shards)]
    if tier != "quick":
        # every rooted ordered tree with 2..7 container nodes x the base descendant queries, as arrays and with some objects
        specs += [{"kind": "all-shapes", "seed": "%d/s%d" % (seed, i), "shard": i, "shards": shards, "max_leaves": 40000} for i in range(shards)]
    return specs


def run_shard(spec, rec):
    import jsonpath_rfc9535 as jp
    from jsonpath_rfc9535 import JSONPathEnvironment
    import jsonpath_rfc9535.segments as _seg
    import random as _r
    if not isinstance(getattr(_r.shuffle, "__self__", None), Shim):
        rec.note("random was not replaced before import")
    R = _random.Random(spec["seed"])
    nd = type("NDEnv", (JSONPathEnvironment,), {"nondeterministic": True})()
    det = JSONPathEnvironment()
    abn = __import__("vf.oracle.abnf", fromlist=["x"]).get(True)
    orders = Orders(cap=20000)
    if spec["kind"] == "all-shapes":
        k = 0
        for shape in SHAPES:
            for text in ("$..[*]", "$..*", "$..[0]", "$..[?@]", "$[*]..[*]", "$..[*]..[0]"):
                for variant in (0, 1):
                    k += 1
                    if k % spec["shards"] != spec["shard"]:
                        continue
                    doc = D.deep_copy(shape) if variant == 0 else dictify(R, D.deep_copy(shape), 0.4)
                    one(rec, R, nd, det, abn, orders, text, doc, spec["max_leaves"], exhaustive=True)
                    rec.feat("all-shapes")
        rec.exhaustive = True
        return
    # the listed finding's own witness, so that it is observed (and still attributed) on every run
    one(rec, R, nd, det, abn, orders, "$..[*]", [[[1], [2]], [3]], spec["max_leaves"], exhaustive=True)
    # battery: member shuffles must survive in every segment position (after a filter, after a descendant segment, inside one)
    for text, doc in (("$[?@][*]", [{"a": 1, "b": 2}, {"c": 3, "d": 4}]), ("$[?@.a][?@]", [{"a": 1, "b": 2}, {"a": 3, "d": 4}]), ("$..[?@][*]", {"x": {"a": 1, "b": 2}}),
                      ("$.*[*]", {"x": {"a": 1, "b": 2}, "y": [3]}), ("$[*][?@]", [{"a": 1, "b": 2}, [3, 4]]), ("$..*", {"a": {"b": 1, "c": 2}}),
                      ("$[?@ == @][*, *]", [{"a": 1, "b": 2}]), ("$[?count(@.*) > 1].*", {"k": {"a": 1, "b": 2}, "l": [1]})):
        one(rec, R, nd, det, abn, orders, text, doc, spec["max_leaves"], exhaustive=True)
        rec.feat("small:battery")
    # battery: objects with 4 and 5 members (24 / 120 member orders: every one of them, not only rotations or reversals)
    for text, doc in (("$.*", {"a": 1, "b": 2, "c": 3, "d": 4}), ("$[*]", {"a": 1, "b": [2], "c": {"x": 3}, "d": 4, "e": 5}), ("$[?@]", {"a": 1, "b": 2, "c": 3, "d": 4}),
                      ("$..*", {"a": 1, "b": 2, "c": 3, "d": 4}), ("$.k[?@ > 0]", {"k": {"a": 1, "b": 2, "c": 3, "d": 4, "e": 5}}), ("$[0].*", [{"a": 1, "b": 2, "c": 3, "d": 4}]),
                      ("$..[?@]", {"a": 1, "b": 2, "c": 3, "d": 4}), ("$.*", {"d": 1, "c": 2, "b": 3, "a": 4, "": 5})):
        one(rec, R, nd, det, abn, orders, text, doc, spec["max_leaves"], exhaustive=True)
        rec.feat("small:wide-object-battery")
    wide_part(rec, R, nd)
    for i in range(spec["small"]):
        if i % 2 == 0:
            text = R.choice(["$..[*]", "$..*", "$..[0]", "$..[?@]", "$[*]..[*]", "$..[*]..[0]", "$..[?@ == $[0][0]]", "$..[?$[1]]"])
            doc = dictify(R, D.deep_copy(R.choice(SHAPES)), R.choice([0.0, 0.0, 0.3]))
            rec.feat("small:tree-shape")
        else:
            text = R.choice(QUERIES_SMALL)
            doc = small_doc(R)
            rec.feat("small:random")
        one(rec, R, nd, det, abn, orders, text, doc, spec["max_leaves"], exhaustive=True)
    for _ in range(spec["large"]):
        cfg = G.Cfg(filters=True, regex_functions=False, max_depth=1, max_segments=3, desc_p=0.5)
        cfg.names = ["a", "b", "c", "d"]
        q = G.QGen(R, cfg).query(root="$")
        text = G.render(q, R, ws="none")
        doc = D.gen_value(R, ["a", "b", "c", "d"], [1, 2, "a", None, [], {}], 0, R.choice([3, 4, 5]), 4)
        one(rec, R, nd, det, abn, orders, text, doc, spec["max_leaves"], exhaustive=False)


def one(rec, R, nd, det, abn, orders, text, doc, max_leaves, exhaustive):
    late = R.random() < 0.25
    if late:
        # the query is compiled first and the environment is switched to nondeterministic mode afterwards
        from jsonpath_rfc9535 import JSONPathEnvironment
        nd = JSONPathEnvironment()
        rec.feat("mode-switched-on-after-compile")
    try:
        q = nd.compile(text)
        det_q = det.compile(text)
        base = locs(det_q.find(doc))
    except Exception:  # noqa: BLE001
        return
    if late:
        nd.nondeterministic = True
    ast = abn.ast(text)
    rec.wal({"query": text, "document": D.short(doc, 400)})
    # an abandoned traversal of the same query text on the same environment must not leak into the runs that follow
    try:
        CH.rand = _random.Random(R.getrandbits(32))
        other = [[["x"], {"y": [1], "a": {"a": 1}}], {"z": [[2]], "a": [0, {"a": [3]}]}, [[[4]]]]
        nd.find_one(text, other)
        it = iter(nd.finditer(text, other))
        for _ in range(R.randint(1, 6)):   # far enough for the traversal to have pending work
            next(it, None)
        del it
    except Exception:  # noqa: BLE001
        pass
    finally:
        CH.rand = None
    if not late:
        q = nd.compile(text)
    try:
        with guard(120):
            if exhaustive:
                results, leaves, complete, controlled, err = enumerate_leaves(q, doc, max_leaves)
            else:
                results, err = sample_leaves(q, doc, 40, R)
                leaves, complete, controlled = 40, False, True
            try:
                permitted = orders.results(ast, doc, "permitted") if ast is not None else None
            except (TooBig, RecursionError):
                permitted = None
    except CaseTimeout:
        rec.timeout(text)
        return
    rec.monitor("M-leaf", leaves)
    rec.feat("leaves", leaves)
    rec.feat("enumeration:%s" % ("complete" if complete else "partial-or-sampled"))
    if not controlled:
        rec.feat("uncontrolled-entropy")
    rec.case((text, D.short(doc, 2000)), len(results) >= 2)
    if len(results) >= 2:
        rec.sample({"query": text, "document": D.short(doc), "leaves": leaves, "distinct_orderings": len(results), "permitted": len(permitted) if permitted is not None else None,
                    "enumeration_complete": complete}, limit=6)
    wit = {"query": text, "document": jsonable(doc), "leaves": leaves}
    # the query compiled on the DETERMINISTIC environment before all this and held since must still give document order
    o_det = mon.observe(lambda: locs(det_q.find(doc)))
    rec.monitor("M-held-deterministic-query")
    if o_det[0] != "ok" or o_det[1] != base:
        rec.violation("held-deterministic-query-changed", dict(wit, before=jsonable(base), after=jsonable(o_det[1]) if o_det[0] == "ok" else mon.describe_outcome(o_det)))
        return
    if err is not None:
        rec.violation("raises-" + err[1], wit)
        return
    # validity
    base_ms = sorted(base, key=repr)
    for r in results:
        if permitted is not None:
            rec.monitor("M-validity-membership")
            if r not in permitted:
                rec.violation(classify_invalid(r, base), dict(wit, observed_ordering=jsonable(r), deterministic=jsonable(base), permitted_orderings=len(permitted)))
                return
        else:
            rec.monitor("M-validity-multiset")
            if sorted(r, key=repr) != base_ms:
                rec.violation("not-a-permutation-of-the-deterministic-result", dict(wit, observed_ordering=jsonable(r), deterministic=jsonable(base)))
                return
    # exhaustiveness
    if exhaustive and complete and controlled and permitted is not None and len(results) == 1 and len(permitted) > 1 and leaves == 1:
        # no choice point was offered to the chooser although several orderings are permitted: either the mode is not
        # nondeterministic at all (a violation) or it draws its entropy from a source the chooser does not control
        seen = set()
        for _ in range(25):
            try:
                seen.add(locs(q.find(doc)))
            except Exception:  # noqa: BLE001
                pass
        if len(seen | set(results)) > 1:
            rec.feat("uncontrolled-entropy")
            rec.note("entropy source not controlled by the chooser for %r: exhaustiveness not decided" % text)
            return
    if exhaustive and complete and controlled and permitted is not None:
        rec.monitor("M-exhaustiveness")
        missing = permitted - set(results)
        if missing:
            try:
                model = orders.results(ast, doc, "queue")
            except (TooBig, RecursionError):
                model = None
            if model is None:
                rec.feat("exhaustiveness:model-too-big")
                return
            regress = missing & model
            if regress:
                rec.violation("ordering-of-the-documented-algorithm-never-produced", dict(wit, missing_example=jsonable(sorted(regress, key=repr)[0]), missing=len(regress),
                                                                                          observed_orderings=len(results), permitted_orderings=len(permitted)))
            else:
                rec.violation("queue-traversal-not-exhaustive", dict(wit, missing_example=jsonable(sorted(missing, key=repr)[0]), missing=len(missing),
                                                                     observed_orderings=len(results), permitted_orderings=len(permitted)))
        else:
            rec.feat("exhaustiveness:all-permitted-orderings-produced")


def wide_part(rec, R, nd):
    """Wide documents (hundreds of containers pending at once, more than a thousand visited): too many orderings to enumerate,
    but each observed ordering is decided by the linear-time membership test of vf/oracle/order.py:verify_desc_wild."""
    from ..oracle.order import verify_desc_wild
    docs = []
    for n in (300, 700):
        docs.append([[[i], [i + 1], i] for i in range(n)])
        docs.append({"k%d" % i: [[i], {"a": [i]}] for i in range(n)})
        docs.append([[{"a": i, "b": [i]}, [i, [i]], [], {}] if i % 3 else i for i in range(n)])
    docs.append([[[[j] for j in range(4)] for i in range(40)] for _ in range(9)])
    for di, doc in enumerate(docs):
        for text in ("$..[*]", "$..*"):
            for trial in range(2):
                CH.rand = _random.Random(R.getrandbits(32))
                try:
                    with guard(120):
                        o = mon.observe(lambda: locs(nd.find(text, doc)))
                except CaseTimeout:
                    rec.timeout("wide %d" % di)
                    continue
                finally:
                    CH.rand = None
                rec.monitor("M-validity-wide")
                rec.case(("wide", di, text, trial), True)
                rec.feat("wide:ordering-verified")
                if o[0] != "ok":
                    rec.violation("raises-" + type(o[1]).__name__, {"query": text, "document": "wide document #%d (%s)" % (di, D.short(doc, 120)), "observed": mon.describe_outcome(o)})
                    continue
                why = verify_desc_wild(doc, list(o[1]))
                if why is not None:
                    n_base = sum(1 for _ in _walk_children(doc))
                    key = "not-a-permutation-of-the-deterministic-result" if len(o[1]) != n_base or len(set(o[1])) != len(o[1]) else "ordering-not-permitted"
                    rec.violation(key, {"query": text, "document": "wide document #%d (%s)" % (di, D.short(doc, 200)), "nodes": len(o[1]), "nodes_expected": n_base, "reason": why})


def _walk_children(v):
    if isinstance(v, list):
        for x in v:
            yield x
            yield from _walk_children(x)
    elif isinstance(v, dict):
        for x in v.values():
            yield x
            yield from _walk_children(x)


def classify_invalid(r, base):
    if sorted(r, key=repr) != sorted(base, key=repr):
        return "not-a-permutation-of-the-deterministic-result"
    return "ordering-not-permitted"


def finish(m, tier):
    if tier != "quick":
        m["extra"]["exhaustive_scope"] = "all %d rooted ordered trees with 2..7 container nodes x 6 descendant queries x {arrays only, some objects}: complete choice trees (up to the leaf cap); everything else sampled" % len(SHAPES)
    m["extra"]["leaves_executed"] = m["features"].get("leaves", 0)
    m["extra"]["fully_enumerated_inputs"] = m["features"].get("enumeration:complete", 0)
    if m["features"].get("uncontrolled-entropy", 0):
        m["notes"].append("some inputs had entropy the chooser does not control: exhaustiveness skipped there")
    return []


def replay(case, rec):
    rec.case("r1", True)
    rec.case("r2", True)
    from jsonpath_rfc9535 import JSONPathEnvironment
    nd = type("NDEnv", (JSONPathEnvironment,), {"nondeterministic": True})()
    det = JSONPathEnvironment()
    abn = __import__("vf.oracle.abnf", fromlist=["x"]).get(True)
    one(rec, _random.Random(0), nd, det, abn, Orders(cap=20000), case["query"], case["document"], 40000, True)
