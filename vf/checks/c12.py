"""C12 — str(query) is a faithful canonical form: it reparses to the same query."""
from __future__ import annotations

import random

from lark import Tree

from ..gen import queries as G
from ..gen import docs as D
from ..oracle import abnf, sem, typing as T, strings as S
from ..oracle.sem import BUILTIN_SIGS
from .. import mon
from ..worker import guard, CaseTimeout, jsonable

PROPERTY = "C12"
MAXI = 2**53 - 1
RULE = ("valid generated queries (all selector kinds, slices with omitted parts, hostile names/literals, every number spelling in the exactly "
        "representable range, every nesting of ! && || ( ) comparisons, calls and embedded filters to depth 4). For t = str(compile(q)): "
        "(1) t is in the strict ABNF language, well-typed and in range (own Earley recogniser, not the repository's parser); (2) compile(t) "
        "succeeds; (3) str(compile(t)) == t; (4) on documents planted from q, compile(t) and compile(q) return identical nodelists AND the "
        "reference semantics of the AST that the recogniser assigns to t equals the real result of q (so t means the same under the RFC, "
        "not merely under the same parser); (5) every string literal in the parse tree of t is single-quoted and spelled exactly as the "
        "normalized form of its decoded value. Non-trivial: q contains a filter with a logical operator, negation or parentheses, or a "
        "name/literal needing an escape, or a non-default number spelling; distinct by q's text. A concurrent part lets 4-8 threads call str() and hash() on the same 12 compiled queries at the same time (GIL hand-offs injected on package lines); every text equals the sequential one.")
ASSUMPTIONS = ["strict ABNF transcription and reference semantics (vf/oracle) define 'valid' and 'selects the same nodes'",
               "equivalence on *every* value is sampled by 4 planted documents per query plus structural AST comparison modulo redundant parentheses, and/or re-association and numeric spelling"]
DECIDING_MONITORS = ["M-str"]

MODEL = sem.Model()


def string_literals(tree):
    out = []
    for st in tree.iter_subtrees():
        if st.data == "string_literal":
            out.append(abnf._text(st))
    return out


def check(jp, rec, text, q, docs):
    o = mon.observe(jp.compile, text)
    if o[0] != "ok":
        return None  # C03's business
    c1 = o[1]
    try:
        t = str(c1)
    except Exception as e:  # noqa: BLE001
        return ("str-raises-" + type(e).__name__, {"query": text})
    rec.monitor("M-str")
    wit = {"query": text, "str": t}
    # (1) valid under the independent recogniser
    strict = abnf.get(False)
    try:
        tree = strict.tree(t)
    except Exception:  # noqa: BLE001
        return ("str-not-in-abnf", wit)
    b = abnf.to_ast(tree)
    ok, why = T.well_typed(b, BUILTIN_SIGS)
    if not ok:
        return ("str-ill-typed", dict(wit, why=why))
    ok, why = T.in_range(b, -MAXI, MAXI)
    if not ok:
        return ("str-out-of-range", dict(wit, why=why))
    # (5) canonical string literals
    for lit in string_literals(tree):
        dec = abnf.decode_string_literal(lit)
        if lit != S.normalized_name(dec):
            return ("non-canonical-literal", dict(wit, literal=lit, expected=S.normalized_name(dec)))
    # (2) reparse
    o2 = mon.observe(jp.compile, t)
    if o2[0] != "ok":
        return ("str-does-not-compile", dict(wit, observed=mon.describe_outcome(o2)))
    c2 = o2[1]
    # (3) idempotent
    t2 = str(c2)
    if t2 != t:
        return ("not-idempotent", dict(wit, second=t2))
    # (4) same nodes
    structural = abnf.normalise(b) == abnf.normalise(q)
    rec.feat("structural-equal:%s" % structural)
    for d in docs:
        r1 = mon.observe(lambda: list(c1.finditer(d)))
        r2 = mon.observe(lambda: list(c2.finditer(d)))
        if r1[0] != r2[0]:
            return ("reparse-differs", dict(wit, document=jsonable(d), original=mon.describe_outcome(r1), reparsed=mon.describe_outcome(r2)))
        if r1[0] == "ok":
            s1, s2 = mon.sig(r1[1]), mon.sig(r2[1])
            if s1 != s2:
                return ("reparse-differs", dict(wit, document=jsonable(d), original=mon.locs_only(s1), reparsed=mon.locs_only(s2)))
            try:
                want = mon.want_sig(MODEL.find(b, d))
            except Exception:  # noqa: BLE001  (Gray patterns etc.)
                continue
            if want != s1:
                return ("str-means-something-else", dict(wit, document=jsonable(d), real_result_of_original=mon.locs_only(s1), rfc_meaning_of_str=mon.locs_only(want)))
    return False


def interesting(q, text, feat_delta):
    def ex(e):
        k = e[0]
        if k in ("or", "and", "not", "paren"):
            return True
        if k == "cmp":
            return any(x[0] == "q" and inner(x) or x[0] == "call" and any(ex2(a) for a in x[2]) for x in (e[2], e[3]))
        if k == "test":
            return ex2(e[1])
        return False

    def ex2(x):
        if x[0] == "q":
            return inner(x)
        if x[0] == "call":
            return any(ex2(a) if a[0] in ("q", "call") else (a[0] != "lit" and ex(a)) for a in x[2])
        return False

    def inner(qq):
        return any(s[0] == "filter" and ex(s[1]) for _, sels in qq[2] for s in sels)
    return inner(q) or feat_delta


def plan(tier, seed, nproc, scale):
    shards = nproc if tier == "quick" else nproc * 4
    n = int((24000 if tier == "quick" else 400000) * scale)
    specs = [{"kind": "random", "seed": "%d/%d" % (seed, i), "n": n // shards} for i in range(shards)]
    specs += [{"kind": "threads", "seed": "%d/t%d" % (seed, i), "runs": 2 if tier == "quick" else 12} for i in range(4 if tier == "quick" else nproc)]
    return specs


def thread_part(jp, rec, R, spec):
    """Several threads serialise the SAME compiled queries at the same time (str, repr-free: str() and hash()), with GIL
    hand-offs injected on lines of the package: every text equals the one produced sequentially."""
    from ..threads import run_threads
    for run in range(spec["runs"]):
        cfg = G.Cfg(filters=True, regex_functions=True, max_depth=3)
        gen = G.QGen(R, cfg)
        compiled = []
        while len(compiled) < 12:
            q = ("q", "$", (("child", (("filter", gen.expr(1)),)),) + ((gen.segment(1),) if R.random() < 0.5 else ()))
            if not G.representable(q):
                continue
            text = G.render(q, R, ws="none")
            try:
                compiled.append(jp.compile(text))
            except Exception:  # noqa: BLE001
                continue
        want = [str(c) for c in compiled]
        nthreads = R.choice([4, 6, 8])
        got = [[] for _ in range(nthreads)]
        orders = [R.sample(range(len(compiled)), len(compiled)) for _ in range(nthreads)]

        def work(k):
            for rep in range(3):
                for ci in orders[k]:
                    got[k].append((ci, str(compiled[ci])))
                    hash(compiled[ci])
        hung, switches, sites, errors = run_threads(jp, "%s/%d" % (spec["seed"], run), nthreads, work, R.choice([0.05, 0.2, 0.5]))
        if hung:
            rec.timeout("thread run %d did not finish" % run)
            continue
        rec.feat("thread-runs")
        rec.feat("thread-switches-inside-package", switches)
        rec.case(("threads", spec["seed"], run), switches > 0)
        for k_, name, msg in errors:
            rec.violation("concurrent-str-raises-" + name, {"thread": k_, "message": msg})
        bad = None
        for k in range(nthreads):
            for ci, text in got[k]:
                rec.monitor("M-str")
                if text != want[ci] and bad is None:
                    bad = {"str_observed_concurrently": text, "str_sequential": want[ci], "threads": nthreads, "switches_inside_package": switches}
        if bad:
            rec.violation("concurrent-str-differs", bad)


def finish(m, tier):
    sw = m["features"].get("thread-switches-inside-package", 0)
    m["extra"]["thread_switches_inside_package"] = sw
    if m["features"].get("thread-runs", 0) and sw == 0:
        return ["the concurrent part observed no thread switch inside package code"]
    return []


def run_shard(spec, rec):
    import jsonpath_rfc9535 as jp
    R = random.Random(spec["seed"])
    if spec.get("kind") == "threads":
        thread_part(jp, rec, R, spec)
        return
    for _ in range(spec["n"]):
        cfg = G.Cfg(filters=True, regex_functions=True, max_depth=R.choice([2, 3, 4]), big_ints=R.random() < 0.2)
        gen = G.QGen(R, cfg)
        q = gen.query(root="$") if R.random() < 0.5 else ("q", "$", (("child", (("filter", gen.expr(1)),)),))
        if not G.representable(q):
            continue
        before = sum(v for k, v in rec.features.items() if k.startswith("str:") and k != "str:raw" or k.startswith("num:") and k not in ("num:int", "num:float"))
        text = G.render(q, R, feat=rec.features)
        after = sum(v for k, v in rec.features.items() if k.startswith("str:") and k != "str:raw" or k.startswith("num:") and k not in ("num:int", "num:float"))
        docs = [D.doc_for(R, q, maxdepth=3, maxwidth=4, shapes=0) for _ in range(4)]
        rec.wal({"query": text})
        try:
            with guard(60):
                r = check(jp, rec, text, q, docs)
        except CaseTimeout:
            rec.timeout(text)
            continue
        if r is None:
            rec.feat("original-refused")
            continue
        nt = bool(interesting(q, text, after > before))
        rec.case(text, nt)
        if nt:
            rec.sample({"query": text, "str": str(jp.compile(text))}, limit=8)
        if r:
            key, wit = r
            rec.violation(key, wit)


def replay(case, rec):
    import jsonpath_rfc9535 as jp
    rec.case("r1", True)
    rec.case("r2", True)
    q = abnf.get(True).ast(case["query"])
    docs = [case["document"]] if "document" in case else [[], {}]
    r = check(jp, rec, case["query"], q, docs) if q is not None else None
    if r:
        rec.violation(r[0], r[1])
