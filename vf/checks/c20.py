"""C20 — the command-line tool is a faithful, well-behaved front end to find()."""
from __future__ import annotations

import io
import json
import os
import random
import subprocess
import sys
import tempfile

from ..gen import queries as G
from ..gen import docs as D
from .. import mon
from ..worker import jsonable

PROPERTY = "C20"
RULE = ("option matrix {-q | -r file} x {-f file | stdin} x {stdout | -o file} x {--pretty} x {--debug}; queries: generated valid ones, each "
        "JSONPathError class at compile time (syntax, type, index, name) and evaluation-time errors (descendant segment on data nested "
        "deeper than the limit, placed after earlier matches); documents: random trees with non-ASCII text and escapes (incl. lone "
        "surrogate escapes), nesting 100, empty, scalars, invalid JSON (truncated, trailing garbage, empty), undecodable bytes (invalid "
        "UTF-8 via -f). Each case runs `python -m jsonpath_rfc9535` as a real subprocess (decisive) and, for breadth, cli.main() in-process "
        "with patched argv/stdin/stdout/stderr. Oracle: success => exit 0 and the output is one JSON array type-exactly equal to "
        "find(query, document).values() computed in-process, identical with and without --pretty; failure => non-zero exit, nothing on "
        "stdout / an empty output file, and without --debug exactly one diagnostic line on stderr and no traceback. Non-trivial: a "
        "failure case, or a success with a non-empty result; distinct by (argv shape, query, document)."
        " Documents are also given as UTF-16/UTF-32/BOM-prefixed files (json.load auto-detection), query files contain names with runs of blanks, and evaluations that overflow the interpreter stack (comparison of two equal values nested 450-900 deep) must fail gracefully.")
ASSUMPTIONS = ["stdin is decoded by the interpreter's locale layer, so undecodable bytes are only given via -f (binary)",
               "query files hold the query plus at most one trailing newline (the CLI strips the file content)",
               "argparse usage errors (missing files) are only required to exit non-zero without a traceback"]
DECIDING_MONITORS = ["M-cli-subprocess"]
STALL_S = 600


def typed_equal(a, b):
    if type(a) is not type(b):
        return False
    if isinstance(a, list):
        return len(a) == len(b) and all(typed_equal(x, y) for x, y in zip(a, b))
    if isinstance(a, dict):
        return list(a.keys()) == list(b.keys()) and all(typed_equal(a[k], b[k]) for k in a)
    if isinstance(a, float):
        return a == b or (a != a and b != b)
    return a == b


def deep_late(R):
    deep = cur = []
    for _ in range(R.choice([101, 120])):
        nxt = []
        cur.append(nxt)
        cur = nxt
    return R.choice([[1, 2, {"a": 3}, deep], {"first": [1, 2], "late": deep}, [{"a": 1}, deep, 5]])


def deep_ok(n=100):
    d = cur = []
    for i in range(n - 1):
        nxt = [] if i % 2 else {}
        if isinstance(cur, list):
            cur.append(nxt)
        else:
            cur["a"] = nxt
        cur = nxt
    return d


BAD_QUERIES = {
    "syntax": ["$[", "$.a.", "$[?@.a ==]", "$..", "$[1:2 3]", "$.a b", "$['a", "$[?(@.a]", "$[?@.a==01]", "$[?!!@.a]", " $", "$ ", "$[?@.a=1]", "$[,]", "$.\t",
               "", "$..\n[0]", "$.\na", "$..\r\n*", "$[?@.a ==\n]", "$\n\n!", "$['a\nb']", "$[\n\x0c]", "\n", "$.a\n.\nb.", "$[?@.a == 'x\ny']",
               "@.a", "@", "@[0]", "@args.txt", "@/dev/null", "@$", "a", "$a", "+$", "~", "@.a == 1", "%", "@\n"],
    "type": ["$[?length(@.a, @.b)]", "$[?count(@.a) ]x", "$[?length(@.*)==1]", "$[?count(1)==1]", "$[?match(@.a)]", "$[?value(@.a)]", "$[?@.* == 1]", "$[?length(@.a)]"],
    "index": ["$[9007199254740992]", "$[-9007199254740992]", "$[1:9007199254740992]", "$[::99999999999999999999]"],
    "name": ["$[?nope(@)]", "$[?undefined_fn(@.a) == 1]", "$[?foo()]"],
}


def make_case(R):
    """Returns dict(kind, query, doc_bytes or None, doc_value or None, expect='ok'|'fail')."""
    r = R.random()
    if r < 0.5:
        cfg = G.Cfg(filters=True, regex_functions=True, max_depth=1, max_segments=3, desc_p=0.12)
        cfg.names = ["a", "b", "é", "\U0001F600", "a b", "x\"y", "", "0", "a  b", "a \t b", "x   y", "e\u0301", "\u2126", "\u03a9", "\u212b", "\u00c5", "\uac00", "\u1100\u1161", "\ufb01"]
        q = G.QGen(R, cfg).query(root="$")
        text = G.render(q, R, ws=R.choice(["none", "sparse"]))
        rr = R.random()
        if rr < 0.7:
            doc = D.doc_for(R, q, maxdepth=3, maxwidth=4, extra_names=("a", "b", "a b", "a  b", "x y", "x   y", "e\u0301", "\u00e9", "\u2126", "\u03a9", "\u212b", "\u00c5", "\uac00", "\u1100\u1161", "fi", "\ufb01"))
        elif rr < 0.8:
            doc = R.choice([[], {}, None, 0, "", "é\U0001F600\n\"", 1.5, True, -0.0, 1e300, [1.0, 1, True, None, "1"]])
        elif rr < 0.9:
            doc = deep_ok(100)
        else:
            doc = {"s": "\ud83d", "t": ["ok", "\udc00x"], "é": " "}
            text = R.choice(["$..*", "$.s", "$.t[*]", "$[*]"])
        case = {"kind": "valid", "query": text, "doc_value": doc, "doc_bytes": json.dumps(doc, ensure_ascii=R.random() < 0.5).encode("utf-8", "surrogatepass")
                if not _has_surrogate(doc) else json.dumps(doc, ensure_ascii=True).encode(), "expect": "ok"}
        if R.random() < 0.12 and isinstance(doc, (list, dict)):
            # json.load() auto-detects UTF-8/16/32 (RFC 8259 8.1 history): the same document in another encoding, via -f only
            enc = R.choice(["utf-16", "utf-16-le", "utf-16-be", "utf-32", "utf-32-le", "utf-8-sig"])
            case["doc_bytes"] = json.dumps(doc, ensure_ascii=True).encode(enc)
            case["file_only"] = True
            case["kind"] = "valid:" + enc
        return case
    if r < 0.72:
        cls = R.choice(sorted(BAD_QUERIES))
        return {"kind": "bad-query:" + cls, "query": R.choice(BAD_QUERIES[cls]), "doc_value": [1], "doc_bytes": b"[1]", "expect": "fail"}
    if r < 0.745:
        # evaluation that may overflow the interpreter stack: comparison of two equal, deeply nested values
        n = R.choice([200, 450, 700, 900])
        doc = {"ref": deep_ok(n), "k": [{"v": deep_ok(n), "id": 1}, {"v": 1, "id": 2}]}
        return {"kind": "deep-comparison", "query": R.choice(["$.k[?@.v == $.ref].id", "$.k[?@.v != $.ref].id", "$.k[?$.ref == @.v]"]), "doc_value": doc,
                "doc_bytes": json.dumps(doc).encode(), "expect": "ok"}
    if r < 0.755:
        # large results: strings of 64 KiB and more, thousands of values (the output is one JSON array whatever its size)
        n = R.choice([65535, 65536, 70000, 200000])
        doc = [1, "x" * n, {"k": "y" * n, "j": [2, "z" * (n + 1)]}, list(range(3000)), "\u00e9" * n, {"s": "q" * 10, "t": "\"\\" * (n // 2)}]
        return {"kind": "big-values", "query": R.choice(["$[*]", "$..*", "$[1,2]", "$[?@]", "$[2].j[*]", "$[3][*]", "$[::-1]", "$[5]", "$..k"]), "doc_value": doc,
                "doc_bytes": json.dumps(doc, ensure_ascii=R.random() < 0.5).encode(), "expect": "ok"}
    if r < 0.765:
        # deeply nested but valid filter expressions: whatever find() does with them, the tool reports in its own words
        k = R.choice([40, 99, 100, 101, 120, 200, 300])
        text = R.choice(["$[?" + "(" * k + "@.a" + ")" * k + "]", "$[?" + "!(" * k + "@.a" + ")" * k + "]", "$" + "[?@" * k + "]" * k, "$[?" + "(" * k + "@.a == 1" + ")" * k + " || @.b]",
                         "$[?length(" + "value(" * 0 + "@.a" + ")" * 1 + " == " + "(" * 0 + "1]"])
        doc = [{"a": 1}, {"b": 2}, [[{"a": 1}]]]
        return {"kind": "deep-query", "query": text, "doc_value": doc, "doc_bytes": json.dumps(doc).encode(), "expect": "ok"}
    if r < 0.82:
        doc = deep_late(R)
        return {"kind": "evaluation-error", "query": R.choice(["$..*", "$..[*]", "$..a", "$..[?@]", "$.*..*"]), "doc_value": doc, "doc_bytes": json.dumps(doc).encode(), "expect": "fail"}
    if r < 0.92:
        raw = R.choice([b"{", b"[1, 2", b"[1] x", b"", b"{'a': 1}", b"[1,]", b"nul", b"\"abc", b"[1] [2]", b"{\"a\" 1}",
                        b"[1, 2\n", b"\n", b"{\"a\":\n", b"[1,\r\n", b"[\n\n", b"{\"a\": 1}\n]\n", b"\r\n\r\n", b"[1, 2\n\n\n",
                        # invalid only because of a raw control character inside a string or a member name
                        b"[\"a\tb\"]", b"{\"a\nb\": 1}", b"[\"\x01\"]", b"{\"k\": \"line1\nline2\"}", b"[\"\x1f\"]", b"[\"a\rb\"]", b"{\"\x00\": 0}",
                        b"{\"a\": 1,}", b"[1 2]", b"[01]", b"[1.]", b"[.5]", b"[+1]", b"['a']", b"[\"\\x\"]", b"\xef\xbb\xbf[1"])
        return {"kind": "invalid-json", "query": "$", "doc_value": None, "doc_bytes": raw, "expect": "fail"}
    raw = R.choice([b"\"\xff\"", b"[\"\xc3\x28\"]", b"\xff\xfe[", b"{\"a\": \"\xf0\x28\x8c\x28\"}", b"\x80"])
    return {"kind": "undecodable", "query": "$", "doc_value": None, "doc_bytes": raw, "expect": "fail", "file_only": True}


def _has_surrogate(v):
    s = json.dumps(v, ensure_ascii=False)
    return any(0xD800 <= ord(c) <= 0xDFFF for c in s)


def options(R, case):
    o = {"query_via": R.choice(["-q", "--query", "-r", "--query-file"]), "doc_via": R.choice(["-f", "--file", "stdin"]), "out_via": R.choice(["stdout", "-o", "--output"]),
         "pretty": R.random() < 0.4, "debug": R.random() < 0.25}
    if case.get("file_only") and o["doc_via"] == "stdin":
        o["doc_via"] = "-f"
    if o["query_via"] in ("-r", "--query-file") and (case["query"] != case["query"].strip() or _has_surrogate(case["query"])):
        o["query_via"] = "-q"
    return o


def build_argv(td, case, o):
    argv = []
    if o["query_via"] in ("-q", "--query"):
        if case["query"].startswith("-"):
            argv += [o["query_via"] + ("=" if o["query_via"].startswith("--") else "") + case["query"]] if o["query_via"].startswith("--") else ["-q" + case["query"]]
        else:
            argv += [o["query_via"], case["query"]]
    else:
        qf = os.path.join(td, "query.txt")
        with open(qf, "w", encoding="utf-8") as f:
            f.write(case["query"] + ("\n" if len(case["query"]) % 2 else ""))
        argv += [o["query_via"], qf]
    stdin = None
    if o["doc_via"] == "stdin":
        stdin = case["doc_bytes"]
    else:
        df = os.path.join(td, "doc.json")
        with open(df, "wb") as f:
            f.write(case["doc_bytes"])
        argv += [o["doc_via"], df]
    outf = None
    if o["out_via"] != "stdout":
        outf = os.path.join(td, "out.json")
        argv += [o["out_via"], outf]
    if o["pretty"]:
        argv.append("--pretty")
    if o["debug"]:
        argv.insert(0, "--debug") if len(argv) % 2 else argv.append("--debug")
    return argv, stdin, outf


def judge(case, o, rc, out, err, outfile_content, expected_values):
    """Returns (key, detail) or None."""
    produced = outfile_content if o["out_via"] != "stdout" else out
    other = out if o["out_via"] != "stdout" else None
    if case["expect"] == "ok" or (case["expect"] == "either" and rc == 0 and expected_values is not None):
        if rc != 0:
            return "valid-case-fails", {"exit": rc, "stderr": err[-300:]}
        if other:
            return "stdout-not-empty-with-output-file", {"stdout": other[:100]}
        try:
            got = json.loads(produced)
        except Exception as e:  # noqa: BLE001
            return "output-is-not-json", {"output": produced[:200], "error": str(e)[:100]}
        if not isinstance(got, list):
            return "output-is-not-an-array", {"output": produced[:200]}
        if not typed_equal(got, expected_values):
            return "output-differs-from-find", {"output": produced[:300], "expected": json.dumps(expected_values)[:300]}
        if o["pretty"] and len(expected_values) > 0 and "\n" not in produced:
            return "pretty-has-no-effect", {"output": produced[:100]}
        return None
    # failure expected
    if rc == 0 and case["expect"] == "either":
        return None   # succeeded where this process could not compute the expected values even with a large stack
    if rc == 0:
        return "failure-exits-zero", {"stdout": (out or "")[:200], "kind": case["kind"]}
    if (out or "").strip():
        return "failure-writes-to-stdout", {"stdout": out[:200]}
    if outfile_content is not None and outfile_content.strip():
        return "failure-leaves-partial-output-file", {"file": outfile_content[:200]}
    if not o["debug"]:
        if "Traceback" in err:
            return "traceback-without-debug", {"stderr": err[-400:]}
        lines = [l for l in err.strip().splitlines() if l.strip()]
        if len(lines) != 1:
            return "diagnostic-is-not-one-line", {"stderr": err[-400:], "lines": len(lines)}
    return None


def expected(jp, case):
    if case["expect"] != "ok":
        return None
    from jsonpath_rfc9535 import JSONPathEnvironment
    doc = json.loads(case["doc_bytes"])
    return JSONPathEnvironment().find(case["query"], doc).values()


def expected_with_room(jp, case):
    """find() evaluated in a thread with a 512 MiB stack and a high recursion limit; None if even that fails."""
    import threading
    box = []

    def work():
        old = sys.getrecursionlimit()
        sys.setrecursionlimit(200000)
        try:
            from jsonpath_rfc9535 import JSONPathEnvironment
            box.append(JSONPathEnvironment().find(case["query"], json.loads(case["doc_bytes"])).values())
        except BaseException:  # noqa: BLE001
            pass
        finally:
            sys.setrecursionlimit(old)
    old_size = threading.stack_size(512 * 1024 * 1024)
    try:
        t = threading.Thread(target=work)
        t.start()
        t.join(60)
    finally:
        threading.stack_size(old_size)
    return box[0] if box else None


SLOW_STDIN = [0]


def run_subprocess(repo, argv, stdin):
    env = dict(os.environ, PYTHONPATH=repo, PYTHONUTF8="1", PYTHONDONTWRITEBYTECODE="1")
    env.pop("PYTHONHASHSEED", None)
    SLOW_STDIN[0] += 1
    if stdin and SLOW_STDIN[0] % 6 == 0:
        # a producer that delivers the document late and in two pieces (a pipe from a slow command)
        import time
        p = subprocess.Popen([sys.executable, "-m", "jsonpath_rfc9535"] + argv, stdin=subprocess.PIPE, stdout=subprocess.PIPE, stderr=subprocess.PIPE, env=env, cwd="/")
        try:
            time.sleep(0.4)
            p.stdin.write(stdin[:len(stdin) // 2])
            p.stdin.flush()
            time.sleep(0.1)
        except (BrokenPipeError, OSError):
            pass
        try:
            out, err = p.communicate(stdin[len(stdin) // 2:], timeout=120)
        except (BrokenPipeError, OSError):
            out, err = p.communicate(timeout=120)
        return p.returncode, out.decode("utf-8", "replace"), err.decode("utf-8", "replace")
    p = subprocess.run([sys.executable, "-m", "jsonpath_rfc9535"] + argv, input=stdin if stdin is not None else b"", capture_output=True, env=env, timeout=120, cwd="/")
    return p.returncode, p.stdout.decode("utf-8", "replace"), p.stderr.decode("utf-8", "replace")


def run_inprocess(argv, stdin):
    from jsonpath_rfc9535 import cli
    old = sys.argv, sys.stdin, sys.stdout, sys.stderr
    out, err = io.StringIO(), io.StringIO()
    sys.argv = ["jsonpath-rfc9535"] + argv
    sys.stdin = io.TextIOWrapper(io.BytesIO(stdin if stdin is not None else b""), encoding="utf-8")
    sys.stdout, sys.stderr = out, err
    rc = 0
    try:
        try:
            cli.main()
        except SystemExit as e:
            rc = e.code if isinstance(e.code, int) else (0 if e.code is None else 1)
        except BaseException:  # noqa: BLE001
            import traceback
            err.write(traceback.format_exc())
            rc = 1
    finally:
        sys.argv, sys.stdin, sys.stdout, sys.stderr = old
    return rc, out.getvalue(), err.getvalue()


def plan(tier, seed, nproc, scale):
    shards = nproc if tier == "quick" else nproc * 4
    sub = int((640 if tier == "quick" else 12000) * scale)
    inp = int((4800 if tier == "quick" else 150000) * scale)
    return [{"kind": "mixed", "seed": "%d/%d" % (seed, i), "subprocess": max(1, sub // shards), "inprocess": max(1, inp // shards)} for i in range(shards)]


def one(jp, rec, R, how, repo):
    case = make_case(R)
    o = options(R, case)
    try:
        exp = expected(jp, case)
    except RecursionError:
        # the evaluation runs out of interpreter stack here; whether it does in the tool's own process depends on how deep the
        # stack already is there, so either outcome is accepted: exit 0 with exactly the values find() gives when it has room
        # (computed below in a thread with a large stack), or a graceful one-line failure
        case = dict(case, expect="either", kind=case["kind"] + ":evaluation-raises")
        exp = expected_with_room(jp, case)
    except Exception as e:  # noqa: BLE001
        from jsonpath_rfc9535 import JSONPathError
        if not isinstance(e, JSONPathError):
            rec.note("expected() failed for a 'valid' case: %r %s" % (case["query"][:200], e))
            return
        # find() itself refuses this input (not this property's business): the tool must then fail in its own words
        case = dict(case, expect="fail", kind=case["kind"] + ":find-raises-" + type(e).__name__)
        exp = None
    with tempfile.TemporaryDirectory(prefix="vfcli") as td:
        argv, stdin, outf = build_argv(td, case, o)
        rec.wal({"argv": argv, "kind": case["kind"]})
        if how == "subprocess":
            rc, out, err = run_subprocess(repo, argv, stdin)
            rec.monitor("M-cli-subprocess")
        else:
            rc, out, err = run_inprocess(argv, stdin)
            rec.monitor("M-cli-inprocess")
            import gc
            gc.collect()
        content = None
        if outf is not None:
            try:
                with open(outf, encoding="utf-8") as f:
                    content = f.read()
            except OSError:
                content = None
        v = judge(case, o, rc, out, err, content, exp)
        # --pretty must not change the content: run the twin without/with it
        if v is None and case["expect"] == "ok" and how == "subprocess" and R.random() < 0.3:
            o2 = dict(o, pretty=not o["pretty"])
            argv2, stdin2, outf2 = build_argv(td, case, o2)
            rc2, out2, err2 = run_subprocess(repo, argv2, stdin2)
            rec.monitor("M-cli-subprocess")
            content2 = open(outf2, encoding="utf-8").read() if outf2 else None
            v = judge(case, o2, rc2, out2, err2, content2, exp)
    shape = "%s|%s|%s|%s|%s" % (o["query_via"], o["doc_via"], o["out_via"], "pretty" if o["pretty"] else "compact", "debug" if o["debug"] else "nodebug")
    rec.feat("argv:" + shape)
    rec.feat("kind:%s:%s" % (case["kind"], how))
    nt = case["expect"] in ("fail", "either") or bool(exp)
    rec.case((shape, case["query"], case["doc_bytes"][:2000], how), nt)
    if nt:
        rec.sample({"argv": argv, "kind": case["kind"], "exit": rc, "stderr": err[:120]}, limit=8)
    if v:
        rec.violation(v[0] + (":" + case["kind"] if case["expect"] in ("fail", "either") else ""), dict(v[1], argv=argv, stdin=(stdin or b"")[:200].decode("utf-8", "replace"), how=how,
                                                                                           query=case["query"], document=case["doc_bytes"][:300].decode("utf-8", "replace")))


def run_shard(spec, rec):
    import jsonpath_rfc9535 as jp
    repo = os.environ.get("VERIF_REPO", "/repo")
    R = random.Random(spec["seed"])
    from ..worker import guard, CaseTimeout
    try:
        from jsonpath_rfc9535 import cli as _cli
        inproc_ok = callable(getattr(_cli, "main", None))
    except Exception:  # noqa: BLE001
        inproc_ok = False
    if not inproc_ok:
        rec.note("jsonpath_rfc9535.cli.main not importable: in-process breadth runs skipped, subprocess runs decide")
    for how, n in (("subprocess", spec["subprocess"]), ("inprocess", spec["inprocess"] if inproc_ok else 0)):
        for _ in range(n):
            try:
                with guard(90):
                    one(jp, rec, R, how, repo)
            except CaseTimeout:
                rec.timeout("cli case (%s)" % how)
            except subprocess.TimeoutExpired:
                rec.timeout("cli subprocess")
            rec.heartbeat(True)


def replay(case, rec):
    rec.case("r1", True)
    rec.case("r2", True)
    repo = os.environ.get("VERIF_REPO", "/repo")
    rc, out, err = run_subprocess(repo, case["argv"], case.get("stdin", "").encode())
    rec.monitor("M-cli-subprocess")
    rec.note("replayed argv exit=%s stderr=%s" % (rc, err[-200:]))
    if "Traceback" in err and "--debug" not in case["argv"]:
        rec.violation("traceback-without-debug", dict(case, stderr=err[-300:]))
