"""C02 — filter selection follows RFC 9535 (existence, logic, scoping, iteration)."""
from __future__ import annotations

import random
from collections import Counter

from ..gen import queries as G
from ..gen import docs as D
from ..oracle import sem
from ..worker import guard, CaseTimeout
from . import _semdiff as SD
from ._semdiff import replay  # noqa: F401

PROPERTY = "C02"
RULE = ("AST-first random well-typed queries with filter selectors (tests on relative/absolute queries of any shape incl. bare @ and $, "
        "comparisons, built-in calls incl. match/search on a fixed clean pattern pool, every nesting of ! && || ( ), filters nested in "
        "embedded queries) rendered with random spelling, applied to documents planted from the query (falsy scalars, empty "
        "containers, missing members); oracle = RFC 9535 filter semantics. Non-trivial: some filter was evaluated on >=2 children "
        "with both outcomes; distinct by (AST, document). truth_table = (expression kind, child kind, outcome) cells observed by the oracle."
        " One case in five also re-applies the same compiled query: suspended while it is applied to another document, after the document was updated in place, and after an abandoned evaluation; every application is compared with the model. A chain battery evaluates long flat mixed && / || chains (12-160 operands) plainly and from 99 call-stack depths up to the recursion limit: the model's selection or out-of-stack, never another selection.")
ASSUMPTIONS = SD_ASSUME = ["reference evaluator vf/oracle/sem.py transcribes RFC 9535 2.3.5 correctly (cross-validated against the repository's IETF tables by ./selfcheck)",
                           "function calls restricted to the five built-ins; patterns for match/search come from a pool on which the I-Regexp oracle is exact"]
DECIDING_MONITORS = ["M-find"]


class LedgerModel(sem.Model):
    def __init__(self):
        super().__init__()
        self.cells = Counter()
        self.both = False

    def truth(self, e, cur, root):
        r = super().truth(e, cur, root)
        x = e[0] if e[0] != "test" else "test-" + e[1][0]
        self.cells["%s|%s|%s" % (x, sem.kind(cur), "T" if r else "F")] += 1
        return r

    def select(self, selector, loc, v, root):
        if selector[0] == "filter":
            kids = sem.children(v)
            outs = [self.truth(selector[1], c, root) for _, c in kids]
            if len(set(outs)) == 2:
                self.both = True
            return [(loc + (k,), c) for (k, c), o in zip(kids, outs) if o]
        return super().select(selector, loc, v, root)


def plan(tier, seed, nproc, scale):
    total = int((120000 if tier == "quick" else 2000000) * scale)
    shards = nproc if tier == "quick" else nproc * 4
    per = max(1, total // shards)
    return [{"kind": "random", "seed": "%d/%d" % (seed, i), "n": per} for i in range(shards)]


def gen_case(R, gen):
    # a query guaranteed to contain at least one filter selector
    for _ in range(50):
        q = gen.query(root="$", maxseg=3)
        if sem.has_filter(q):
            return q
    return ("q", "$", (("child", (("filter", gen.expr(1)),)),))


FALSY = [None, False, 0, 0.0, "", [], {}, True, 1, "a", -0.0, [0], {"a": None}]


def planted_case(R, gen):
    """`$[?expr]`-shaped query on a root whose children cover every kind, members planted from the expression."""
    e = gen.expr(1)
    pre = R.choice([(), (), (("child", (("name", "a"),)),), (("child", (("wild",),)),)])
    kind = R.choice(["child", "child", "child", "desc"])
    post = () if R.random() < 0.7 else (gen.segment(3, nofilter=True),)
    q = ("q", "$", pre + ((kind, (("filter", e),)),) + post)
    info = G.names_of(q)
    names = (info["names"] or ["a"]) + ["a", "b"]
    lits = [v for v in info["literals"]] + FALSY
    kids = []
    for _ in range(R.randint(2, 6)):
        r = R.random()
        if r < 0.4:
            v = R.choice(FALSY)
            kids.append(type(v)() if isinstance(v, (list, dict)) and not v else D.deep_copy(v))
        elif r < 0.85:
            o = {}
            for _ in range(R.randint(0, 3)):
                x = R.choice(lits) if R.random() < 0.7 else D.gen_value(R, names, lits, 2, 3, 3)
                o[R.choice(names)] = D.deep_copy(x)
            kids.append(o)
        else:
            kids.append([D.deep_copy(R.choice(lits)) for _ in range(R.randint(0, 3))])
    root = kids if R.random() < 0.7 else {R.choice(names + ["k%d" % i]): k for i, k in enumerate(kids)}
    for seg in reversed(pre):
        root = {"a": root, "b": D.deep_copy(R.choice(lits))} if seg[1][0][0] == "name" else [root, D.deep_copy(R.choice(lits))]
    return q, root


def reuse_case(jp, rec, R, text, q, doc):
    from .. import mon
    from ..worker import jsonable
    o = mon.observe(jp.compile, text)
    if o[0] != "ok":
        return None
    c = o[1]
    steps = []
    # an evaluation suspended while the same compiled query is applied to another document ('$' must stay bound)
    other = D.doc_for(R, q, maxdepth=3, maxwidth=4, shapes=0)
    want0 = mon.want_sig(SD.MODEL.find(q, doc))

    def suspended():
        it = iter(c.finditer(doc))
        out = []
        for _ in range(R.randint(0, 2)):
            n = next(it, None)
            if n is None:
                return out
            out.append(n)
        try:
            c.find(other)
        except Exception:  # noqa: BLE001
            pass
        return out + list(it)
    r0 = mon.observe(suspended)
    rec.monitor("M-find")
    if r0[0] != "ok" or mon.sig(r0[1]) != want0:
        return ("suspended-evaluation-differs", {"query": text, "document": jsonable(doc), "other_document_applied_in_between": jsonable(other),
                                                 "expected_locations": mon.locs_only(want0),
                                                 "observed": mon.locs_only(mon.sig(r0[1])) if r0[0] == "ok" else mon.describe_outcome(r0)})
    for step in range(3):
        r = mon.observe((lambda: list(c.find(doc))) if step != 1 else (lambda: list(c.finditer(doc))))
        rec.monitor("M-find")
        want = mon.want_sig(SD.MODEL.find(q, doc))
        steps.append(D.short(doc, 300))
        if r[0] != "ok" or mon.sig(r[1]) != want:
            return ("reused-compiled-query-differs", {"query": text, "documents_in_order": steps, "step": step, "document": jsonable(doc),
                                                      "expected_locations": mon.locs_only(want),
                                                      "observed": mon.locs_only(mon.sig(r[1])) if r[0] == "ok" else mon.describe_outcome(r)})
        # update in place (same object identity), or switch to an equal-shaped fresh document
        if isinstance(doc, list) and doc and R.random() < 0.7:
            i = R.randrange(len(doc))
            doc[i] = D.deep_copy(R.choice(FALSY + [{"a": 1}, {"a": 2, "b": [1]}, [1, 2]]))
        elif isinstance(doc, dict) and doc and R.random() < 0.7:
            k = R.choice(list(doc))
            doc[k] = D.deep_copy(R.choice(FALSY + [{"a": 1}, 5, "a"]))
        else:
            doc = D.deep_copy(doc)
            if isinstance(doc, list):
                doc.append(R.choice(FALSY))
    return None


def chain_battery(jp, rec, R, model):
    """Long FLAT mixed && / || chains (no nesting), evaluated plainly and from a band of call-stack depths close to the
    recursion limit: the selection is the model's, or the evaluation runs out of stack - never a different selection."""
    from .. import mon
    from ..worker import jsonable
    names = ["a", "b", "c", "d", "e"]
    for n_ops in (12, 40, 90, 160):
        for trial in range(3):
            ands = []
            cur = []
            for i in range(n_ops):
                nm = R.choice(names)
                atom = R.choice([("test", ("q", "@", (("child", (("name", nm),)),))), ("cmp", "==", ("q", "@", (("child", (("name", nm),)),)), ("lit", 1)),
                                 ("not", ("test", ("q", "@", (("child", (("name", nm),)),))))])
                cur.append(atom)
                if R.random() < 0.35 or i == n_ops - 1:
                    ands.append(("and", tuple(cur)) if len(cur) > 1 else cur[0])
                    cur = []
            e = ("or", tuple(ands)) if len(ands) > 1 else ands[0]
            q = ("q", "$", (("child", (("filter", e),)),))
            text = G.render(q, R, ws="none")
            doc = [{nm: R.choice([1, 0, None, "x"]) for nm in R.sample(names, R.randint(0, 5))} for _ in range(8)]
            want = mon.want_sig(model.find(q, doc))
            o = mon.observe(jp.compile, text)
            if o[0] != "ok":
                rec.violation("exception:" + type(o[1]).__name__, {"query": text, "observed": mon.describe_outcome(o), "source": "chain-battery"})
                continue
            c = o[1]
            outcomes = [(0, mon._plain(lambda: mon.sig(list(c.finditer(doc))), ()))] + mon.depth_band(lambda: mon.sig(list(c.finditer(doc))), (), range(600, 996, 4))
            for d, oo in outcomes:
                rec.monitor("M-find")
                rec.case(("chain", text, d), True)
                rec.feat("chain-battery:" + ("plain" if d == 0 else "deep-stack"))
                if oo[0] == "exc" and isinstance(oo[1], RecursionError):
                    rec.feat("chain-battery:ran-out-of-stack")
                    continue
                if oo[0] != "ok" or oo[1] != want:
                    rec.violation("chain-evaluated-from-deep-stack-differs" if d else "nodes", {"query": text, "document": jsonable(doc), "operands": n_ops, "extra_stack_depth": d,
                                  "expected_locations": mon.locs_only(want), "observed": mon.locs_only(oo[1]) if oo[0] == "ok" else mon.describe_outcome(oo)})
                    break


def run_shard(spec, rec):
    import jsonpath_rfc9535 as jp
    R = random.Random(spec["seed"])
    cfg = G.Cfg(filters=True, regex_functions=True, max_depth=3)
    gen = G.QGen(R, cfg)
    model = LedgerModel()
    saved = SD.MODEL
    SD.MODEL = model
    try:
        for _ in range(spec["n"]):
            if R.random() < 0.5:
                q, doc = planted_case(R, gen)
                rec.feat("case:planted")
            else:
                q = gen_case(R, gen)
                doc = D.doc_for(R, q, maxdepth=R.choice([2, 3, 4]), maxwidth=R.choice([3, 4, 5]), feat=rec.features, shapes=0.04, shape_scale=0.25)
                rec.feat("case:random")
            text = G.render(q, R, feat=rec.features)
            via = R.choice(["find", "finditer", "finditer"])
            if R.random() < 0.2:
                via = ("reuse", D.doc_for(R, q, maxdepth=3, maxwidth=3, shapes=0))
            model.both = False
            rec.wal({"query": text, "document": D.short(doc, 400)})
            try:
                with guard(20):
                    key, want, got = SD.check_case(jp, text, q, doc, rec, via)
            except CaseTimeout:
                rec.timeout(text)
                continue
            if key is None and R.random() < 0.2:
                # the same compiled query applied again after the document was updated in place, and to a second document
                try:
                    with guard(30):
                        key = reuse_case(jp, rec, R, text, q, doc)
                except CaseTimeout:
                    rec.timeout(text)
                    key = None
                if key:
                    rec.violation(key[0], key[1])
                    key = None
            rec.case((q, D.short(doc, 4000)), model.both)
            if model.both:
                rec.sample({"query": text, "document": D.short(doc), "nodes": len(want)})
            if key:
                SD.report(jp, rec, key, text, q, doc, via)
        if str(spec["seed"]).split("/")[-1] in ("0", "1", "2", "3", "4", "5"):
            chain_battery(jp, rec, R, model)
    finally:
        SD.MODEL = saved
    rec.extra["truth_table"] = dict(model.cells)
