"""C03 — every valid RFC 9535 query is accepted by compile()."""
from __future__ import annotations

import random

from ..gen import queries as G
from ..oracle import abnf, typing as T
from ..oracle.sem import BUILTIN_SIGS
from ..oracle import strings as S
from .. import mon
from ..worker import guard, CaseTimeout, jsonable

PROPERTY = "C03"
MAXI = 2**53 - 1
RULE = ("valid-by-construction derivations of the RFC 9535 grammar (AST-first sampler: all selector kinds, filters to depth 3, the five "
        "built-ins, well-typed) rendered with per-site control of optional blank space, quote style, every escape spelling, shorthand vs "
        "bracket, every number spelling; plus sweeps: (1) each optional-S site x each blank kind one at a time on template queries, "
        "(2) every spelling of numbers/strings from the pools, (3) code points U+0080..U+10FFFF as first and as later character of a "
        "member-name shorthand (quick: block boundaries + sample; thorough: all). A compile() failure is confirmed against the strict "
        "Earley recogniser + well-typedness + integer range before it is reported (a generator slip is an internal error, not a verdict); "
        "1 in 8 accepted strings is also recognised as a self-check. A long-sweep compiles 38 flat repetition forms (dotted / bracket / descendant chains, selector lists, && / || chains, long embedded queries and function arguments, long literals, names and blank runs) at 100 to 1000 (thorough: 3000) repetitions; each form's validity is confirmed by the recogniser on its 3-fold instance. Non-trivial: the rendering used at least one optional lexical "
        "alternative; distinct by string. Concurrent part: 3 to 8 threads compile valid queries (random ones and five nesting forms - parentheses, !( ), filter in filter, ( && ), bracketed selection in a function argument - at 10 to 200 levels) on the default environment at the same moment with GIL hand-offs injected on package lines; the threads also compile truncated (invalid) nestings in between, which fail part-way and assert nothing; every query that compiled alone in a thread must compile concurrently to the same str().")
ASSUMPTIONS = ["strict ABNF transcription in vf/oracle/abnf.py (lark Earley) and vf/oracle/typing.py define validity",
               "numbers restricted to exactly representable values (|int| <= 2^53-1, finite floats)"]
DECIDING_MONITORS = ["M-compile"]


def confirm_valid(text):
    """Independent confirmation that text is valid: strict grammar + typing + range."""
    a = abnf.get(False).ast(text)
    if a is None:
        return False, "not in strict ABNF"
    ok, why = T.well_typed(a, BUILTIN_SIGS)
    if not ok:
        return False, why
    ok, why = T.in_range(a, -MAXI, MAXI)
    if not ok:
        return False, why
    if not G.representable(a):
        return False, "number outside the exactly-representable range"
    return True, None


def try_compile(jp, rec, text, src, key_hint=None, ast=None):
    o = mon.observe(jp.compile, text)
    rec.monitor("M-compile")
    if o[0] == "ok":
        return True
    valid, why = confirm_valid(text)
    rec.monitor("oracle-confirmations")
    if not valid:
        rec.note("GENERATOR-SLIP (not a verdict): %r is not valid: %s" % (text[:200], why))
        rec.feat("generator-slip")
        return True
    key = key_hint or classify(text, o)
    small = text
    if rec.viol_counts.get(key, 0) == 0 and len(text) > 8:
        from ..shrink import shrink_text

        def still(t):
            o2 = mon.observe(jp.compile, t)
            return o2[0] != "ok" and (key_hint or classify(t, o2)) == key and confirm_valid(t)[0]
        small = shrink_text(text, still, budget=100)
    rec.violation(key, {"query": small, "original_query": text if small != text else None, "source": src,
                        "observed": mon.describe_outcome(mon.observe(jp.compile, small)), "ast": jsonable(ast) if ast and small == text else None})
    return False


def classify(text, o):
    msg = mon.describe_outcome(o)
    kind = type(o[1]).__name__
    # coarse mechanism key: error class + first words of the message without positions
    import re
    m = re.sub(r"[0-9]+", "N", msg.split(":", 2)[-1])
    m = re.sub(r"'[^']*'", "'..'", m)
    return "refused:%s:%s" % (kind, m[:60])


def plan(tier, seed, nproc, scale):
    total = int((60000 if tier == "quick" else 2000000) * scale)
    shards = nproc if tier == "quick" else nproc * 4
    specs = [{"kind": "random", "seed": "%d/%d" % (seed, i), "n": total // shards} for i in range(shards)]
    specs.append({"kind": "ws-sweep", "seed": "%d/ws" % seed, "templates": 12 if tier == "quick" else 300})
    specs.append({"kind": "lex-sweep", "seed": "%d/lex" % seed})
    specs.append({"kind": "long-sweep", "seed": "%d/long" % seed, "ks": [100, 300, 480, 520, 700, 1000] + ([2000, 3000] if tier != "quick" else [])})
    specs += [{"kind": "threads", "seed": "%d/t%d" % (seed, i), "runs": 2 if tier == "quick" else 10} for i in range(4 if tier == "quick" else nproc)]
    # code point sweep
    if tier == "quick":
        specs.append({"kind": "cp-sweep", "seed": "%d/cp" % seed, "mode": "sample"})
    else:
        chunks = 64
        span = (0x110000 - 0x80) // chunks + 1
        for c in range(chunks):
            specs.append({"kind": "cp-sweep", "seed": "%d/cp%d" % (seed, c), "mode": "range", "lo": 0x80 + c * span, "hi": min(0x110000, 0x80 + (c + 1) * span)})
    return specs


def alt_count(feat_before, feat_after):
    n = 0
    for k, v in feat_after.items():
        if v > feat_before.get(k, 0):
            if k.startswith("ws:") and not k.endswith(":none"):
                n += 1
            elif k.startswith("str:") and k != "str:raw":
                n += 1
            elif k.startswith("num:") and k not in ("num:int", "num:float"):
                n += 1
            elif "shorthand" in k or k == "quote:double" or k == "sel:slice:trailing-colon":
                n += 1
    return n


def run_shard(spec, rec):
    import jsonpath_rfc9535 as jp
    R = random.Random(spec["seed"])
    kind = spec["kind"]
    if kind == "random":
        cfg = G.Cfg(filters=True, regex_functions=True, max_depth=3, big_ints=True)
        cfg.regex_pool = cfg.regex_pool + G.HOSTILE_PATTERNS   # any string literal is a valid argument, whatever the pattern
        gen = G.QGen(R, cfg)
        strict = abnf.get(False)
        for i in range(spec["n"]):
            q = gen.query(root="$")
            before = dict(rec.features)
            text = G.render(q, R, feat=rec.features)
            alts = alt_count(before, rec.features)
            rec.wal({"compile": text})
            try:
                with guard(30):
                    ok = try_compile(jp, rec, text, "random", ast=q)
                    if ok and i % 8 == 0:
                        # generator <-> recogniser self-check (machinery soundness)
                        a = strict.ast(text)
                        rec.monitor("recogniser-selfcheck")
                        if a is None:
                            rec.note("SELF-CHECK: generated %r not recognised by strict ABNF" % text[:200])
                            rec.feat("selfcheck-disagreement")
                        elif abnf.normalise(a) != abnf.normalise(q):
                            rec.note("SELF-CHECK: %r parses back to a different AST" % text[:200])
                            rec.feat("selfcheck-ast-mismatch")
            except CaseTimeout:
                rec.timeout(text)
                continue
            rec.case(text, alts > 0)
            if alts > 1:
                rec.sample({"query": text, "optional_alternatives_used": alts})
    elif kind == "ws-sweep":
        ws_sweep(jp, rec, R, spec)
    elif kind == "lex-sweep":
        lex_sweep(jp, rec, R)
    elif kind == "cp-sweep":
        cp_sweep(jp, rec, R, spec)
    elif kind == "long-sweep":
        long_sweep(jp, rec, R, spec)
    elif kind == "threads":
        thread_part(jp, rec, R, spec)


TEMPLATES = [
    ("q", "$", (("child", (("name", "a"), ("idx", 1), ("slice", 1, 5, 2), ("wild",))), ("desc", (("name", "b"), ("idx", -1))))),
    ("q", "$", (("child", (("filter", ("or", (("and", (("test", ("q", "@", (("child", (("name", "a"),)),))),
                                                         ("cmp", "==", ("q", "@", (("child", (("name", "b"),)),)), ("lit", 1)))),
                                              ("not", ("paren", ("cmp", "<", ("call", "length", (("q", "@", (("child", (("name", "c"),)),)),)), ("lit", 2.5)))),
                                              ("not", ("test", ("call", "match", (("q", "@", (("child", (("name", "d"),)),)), ("lit", "x.*")))))))),
                            ("filter", ("test", ("q", "$", (("child", (("idx", 0), ("slice", None, None, -1))),)))))),)),
    ("q", "$", (("desc", (("filter", ("cmp", ">=", ("call", "count", (("q", "@", (("child", (("wild",), ("name", "x"))),)),)), ("call", "value", (("q", "$", (("desc", (("name", "n"),)),)),)))),)),
                ("child", (("slice", None, 3, None), ("slice", 2, None, None), ("slice", None, None, None))))),
    ("q", "$", (("child", (("filter", ("and", (("paren", ("or", (("test", ("q", "@", ())), ("test", ("q", "$", ()))))),
                                               ("test", ("call", "search", (("q", "@", (("child", (("idx", 0),)), ("child", (("name", "k"),)))), ("q", "$", (("child", (("name", "p"),)),)))))))),)),)),
]


def ws_sweep(jp, rec, R, spec):
    cfg = G.Cfg(filters=True, regex_functions=True, max_depth=2)
    gen = G.QGen(R, cfg)
    templates = list(TEMPLATES)
    while len(templates) < spec["templates"]:
        templates.append(gen.query(root="$"))
    for q in templates:
        # discover the sites this template has
        probe = G.Style(R, ws="none", feat=None)
        from collections import Counter
        probe.feat = Counter()
        G.render_query(probe, q)
        sites = sorted({k.split(":")[1] for k in probe.feat if k.startswith("ws:")})
        for site in sites + ["*"]:
            for blank in G.BLANKS:
                st = G.Style(R, ws="none", feat=rec.features)
                st.shorthand_p = 0.0
                st.force_blank = (site, blank)
                text = G.render_query(st, q)
                rec.wal({"compile": text})
                try_compile(jp, rec, text, "ws-sweep", ast=q)
                rec.case(text, True)
                rec.feat("ws-sweep:%s" % site)


def lex_sweep(jp, rec, R):
    from ..gen.queries import LIT_POOL, HOSTILE_NAMES, number_spellings
    nums = [0, 1, -1, 2, 10, 100, 1000, -100, 12345, MAXI, -MAXI, 0.0, -0.0, 1.5, -2.5, 0.1, 1e-7, 1e300, 2.5e10, 1e16, 123456.789, 5e-324, 1.7976931348623157e308]
    for v in nums:
        for tag, sp in number_spellings(v):
            for tmpl in ("$[?@.a==%s]", "$[?%s<@.a]", "$[?length(@.a)>=%s]", "$[?@.a==%s||@.b!=%s]"):
                text = tmpl.replace("%s", sp)
                try_compile(jp, rec, text, "lex-sweep:number")
                rec.case(text, True)
                rec.feat("num-spelling:" + tag)
    # extra legal number spellings written by hand (all within the exactly representable range)
    for sp in ["0", "-0", "0e1", "-0e1", "0E1", "0e+1", "0e-1", "-0.0E+0", "1E5", "1e5", "1e+5", "1e-07", "1e-7", "1.0e0", "1.5E+3", "0.5", "-0.5", "10e-1",
               "1.000000000000000", "0.000001", "100e-2", "1e0", "1E0", "-1e-1", "123e4", "0.1e1", "0.0e10", "9007199254740991", "-9007199254740991", "1e15", "9.5e-3"]:
        for tmpl in ("$[?@==%s]", "$[?%s!=$.x]", "$[?value(@..a)<=%s]"):
            text = tmpl.replace("%s", sp)
            try_compile(jp, rec, text, "lex-sweep:number-literal")
            rec.case(text, True)
            rec.feat("num-literal-forms")
    # integers as index and slice components
    for i in [0, 1, -1, 10, 123, -456, MAXI, -MAXI, MAXI - 1]:
        for tmpl in ("$[%s]", "$[%s:]", "$[:%s]", "$[::%s]", "$[%s:%s:%s]", "$..[%s]", "$[?@[%s]]", "$[?$[%s:]]", "$[?@[%s]==1]", "$[0, %s]"):
            text = tmpl.replace("%s", str(i))
            try_compile(jp, rec, text, "lex-sweep:int")
            rec.case(text, True)
            rec.feat("int-positions")
    # string literals: every spelling of every character of the pools, both quotes, both positions
    chars = sorted(set("".join(x for x in HOSTILE_NAMES + [v for v in LIT_POOL if isinstance(v, str)]) + "/\b\f\r\t\"'\\ ~\x7f\x80\xad؀​﻿�"))
    for ch in chars:
        for quote in "'\"":
            for tag, sp in S.spellings(ch, quote):
                for tmpl in ("$[%s]", "$[?@.a==%s]", "$..[%s, %s]", "$[?match(@, %s)]" if ch not in "\\" else "$[%s]"):
                    lit = quote + "x" + sp + "y" + quote
                    text = tmpl.replace("%s", lit)
                    try_compile(jp, rec, text, "lex-sweep:string")
                    rec.case(text, True)
                    rec.feat("str-spelling:" + tag)
    # function names and keywords in every legal position
    for text in ["$[?length(@)==1]", "$[?count(@.*)==1]", "$[?value(@.a)==1]", "$[?match(@,'a')]", "$[?search(@,'a')]", "$.length", "$.count", "$.true", "$.null",
                 "$.false", "$..match", "$[?@.length==1]", "$[?@.true==true]", "$[?@.null==null]", "$[?@.false==false]", "$.and", "$.or", "$.not", "$.e1", "$._", "$.__a__",
                 "$[?true==true]", "$[?null==null]", "$[?false!=true]", "$[?'a'=='a']", "$[?1==1]", "$[?@==@]", "$[?$==$]", "$[?@]", "$[?$]", "$[?!@]", "$[?!$]"]:
        try_compile(jp, rec, text, "lex-sweep:names")
        rec.case(text, True)
        rec.feat("keyword-positions")


def cp_sweep(jp, rec, R, spec):
    if spec["mode"] == "range":
        cps = [c for c in range(spec["lo"], spec["hi"]) if not 0xD800 <= c <= 0xDFFF]
    else:
        edges = [0x80, 0x81, 0xFF, 0x100, 0x7FF, 0x800, 0xFFF, 0x1000, 0x2028, 0x2029, 0xD7FE, 0xD7FF, 0xE000, 0xE001, 0xFEFF, 0xFFFD, 0xFFFE, 0xFFFF,
                 0x10000, 0x10001, 0x1F600, 0x1FFFF, 0x20000, 0xE0000, 0xFFFFF, 0x100000, 0x10FFFE, 0x10FFFF]
        cps = sorted(set(edges + [R.randrange(0x80, 0xD800) for _ in range(3000)] + [R.randrange(0xE000, 0x110000) for _ in range(5000)]))
        rec.feat("cp-sweep:sampled", len(cps))
    if spec["mode"] == "range":
        rec.exhaustive = True
    B = 64
    for i in range(0, len(cps), B):
        chunk = cps[i:i + B]
        for form in ("first", "later", "desc", "filter"):
            texts = [render_cp(form, c) for c in chunk]
            whole = "$" + "".join(t[1:] for t in texts) if form != "filter" else None
            ok = False
            if whole is not None:
                o = mon.observe(jp.compile, whole)
                rec.monitor("M-compile")
                ok = o[0] == "ok"
            if not ok:
                for c, t in zip(chunk, texts):
                    try_compile(jp, rec, t, "cp-sweep:" + form, key_hint="refused:shorthand-codepoint-%s" % form)
            for c in chunk:
                rec.case((form, c), True)
        rec.heartbeat()
    rec.feat("cp-sweep:codepoints", len(cps))


def render_cp(form, c):
    ch = chr(c)
    if form == "first":
        return "$." + ch
    if form == "later":
        return "$.a" + ch + "9"
    if form == "desc":
        return "$.." + ch + "_"
    return "$[?@." + ch + "==$." + ch + ch + "]"


# long flat queries: (name, prefix, repeated piece, separator, suffix). Valid for every repetition count >= 1 because the
# grammar repeats that piece with *( ) - confirmed with the recogniser on the 3-fold form.
LONG_FORMS = [
    ("dotted", "$", ".a", "", ""), ("bracket-name", "$", "['a']", "", ""), ("index", "$", "[0]", "", ""), ("wild-dot", "$", ".*", "", ""), ("wild-bracket", "$", "[*]", "", ""),
    ("descendant", "$", "..a", "", ""), ("descendant-bracket", "$", "..[0]", "", ""), ("spaced-dotted", "$", " .a", "", ""), ("non-ascii-dotted", "$", ".\u00e9", "", ""),
    ("mixed-segments", "$", ".a[0]..*['b']", "", ""), ("slice-segments", "$", "[1:2]", "", ""),
    ("index-list", "$[", "0", ",", "]"), ("name-list", "$[", "'a'", ", ", "]"), ("wild-list", "$[", "*", ",", "]"), ("slice-list", "$[", "::", ",", "]"), ("filter-list", "$[", "?@", ",", "]"),
    ("and-chain", "$[?", "@", "&&", "]"), ("or-chain", "$[?", "@.a", "||", "]"), ("and-or-chain", "$[?", "@&&@.a", "||", "]"), ("cmp-chain", "$[?", "@.a==1", " && ", "]"),
    ("not-chain", "$[?", "!@.a", "&&", "]"), ("call-chain", "$[?", "length(@)>1", "||", "]"), ("paren-chain", "$[?", "(@)", "&&", "]"),
    ("filter-query-dotted", "$[?@", ".a", "", "]"), ("filter-root-bracket", "$[?$", "[0]", "", "==1]"), ("count-argument", "$[?count(@", ".*", "", ")>1]"),
    ("length-argument", "$[?length(@", ".a", "", ")>1]"), ("match-argument", "$[?match(@", "['a']", "", ",'a')]"), ("comparison-right", "$[?1<@", "[0]", "", "]"),
    ("nested-filter-query", "$[?@[?@", ".a", "", "]]"),
    ("long-name", "$['", "a", "", "']"), ("long-escapes", "$[\"", "\\n", "", "\"]"), ("long-shorthand", "$.", "ab", "", ""), ("long-literal", "$[?@=='", "\\u00e9", "", "']"),
    ("blank-run", "$", " ", "", ".a"), ("blank-run-bracket", "$[", "\n", "", "0]"), ("blank-run-filter", "$[?@", "\t", "", "]"), ("long-integer-zeros", "$[?@==1.", "0", "", "]"),
]


LOGICAL_CHAINS = {"and-chain", "or-chain", "and-or-chain", "cmp-chain", "not-chain", "call-chain", "paren-chain"}


def long_sweep(jp, rec, R, spec):
    for name, pre, piece, sep, suf in LONG_FORMS:
        small = pre + sep.join([piece] * 3) + suf
        valid, why = confirm_valid(small)
        rec.monitor("oracle-confirmations")
        if not valid:
            rec.note("GENERATOR-SLIP (not a verdict): long form %s: %r is not valid: %s" % (name, small, why))
            rec.feat("generator-slip")
            continue
        for k in spec["ks"]:
            text = pre + sep.join([piece] * k) + suf
            rec.wal({"compile": "%s x %d" % (name, k)})
            try:
                with guard(60):
                    o = mon.observe(jp.compile, text)
            except CaseTimeout:
                rec.timeout("%s x %d" % (name, k))
                continue
            rec.monitor("M-compile")
            rec.case(("long", name, k), True)
            rec.feat("long:" + name)
            if o[0] != "ok":
                # smallest refused repetition count
                lo, hi = 1, k
                while lo < hi:
                    mid = (lo + hi) // 2
                    if mon.observe(jp.compile, pre + sep.join([piece] * mid) + suf)[0] != "ok":
                        hi = mid
                    else:
                        lo = mid + 1
                key = "refused-long:%s" % type(o[1]).__name__
                if name in LOGICAL_CHAINS and isinstance(o[1], RecursionError) and lo >= 200:
                    key = "logical-chain-recursion"   # listed finding (known_findings.json): one parser frame pair per && / || operator
                rec.violation(key, {"form": name, "query": "%r + %r.join([%r] * %d) + %r" % (pre, sep, piece, lo, suf), "repetitions": lo,
                                                                    "characters": len(pre + sep.join([piece] * lo) + suf), "observed": mon.describe_outcome(o)[:200]})
                break
    rec.sample({"long_forms": [f[0] for f in LONG_FORMS], "repetitions": spec["ks"]}, limit=1)


NEST_FORMS = [
    ("paren", "$[?", "(", "@.a", ")", "]"),
    ("not-paren", "$[?", "!(", "@.a == 1", ")", "]"),
    ("filter-in-filter", "$", "[?@", ".a", "]", ""),
    ("paren-and", "$[?", "(@.b && ", "@.a", ")", "]"),
    ("bracket-in-argument", "$[?count(", "@[?count(", "@.*", ") > 0]", ") > 1]"),
]


def nested(form, d):
    name, pre, op, core, cl, suf = form
    return pre + op * d + core + cl * d + suf


def thread_part(jp, rec, R, spec):
    """Several threads compile valid queries on the SAME (default) environment at the same moment, with GIL hand-offs injected on
    package lines. Differential oracle, independent of how deep a nesting this interpreter's stack supports: every query was first
    compiled alone in a thread of its own; one that compiled alone must compile concurrently, to a query with the same str()."""
    import threading
    from ..threads import run_threads
    for run in range(spec["runs"]):
        cfg = G.Cfg(filters=True, regex_functions=True, max_depth=3)
        gen = G.QGen(R, cfg)
        nthreads = R.choice([3, 4, 6, 8])
        texts = []
        for k in range(nthreads):
            mine = []
            for _ in range(3):
                form = R.choice(NEST_FORMS)
                mine.append(("nest:" + form[0], nested(form, R.choice([10, 30, 60, 100, 150, 200]))))
            for _ in range(3):
                mine.append(("random", G.render(gen.query(root="$"), R)))
            for _ in range(2):
                # noise: compiles that FAIL part-way (unclosed nesting) between the valid ones; they assert nothing themselves
                form = R.choice(NEST_FORMS)
                t = nested(form, R.choice([5, 40, 120]))
                mine.append(("noise-invalid", t[:len(t) - R.randint(1, max(1, len(t) // 3))]))
            R.shuffle(mine)
            texts.append(mine)
        solo = {}

        def alone():
            for mine in texts:
                for _, t in mine:
                    if t not in solo:
                        try:
                            solo[t] = ("ok", str(jp.compile(t)))
                        except BaseException as e:  # noqa: BLE001
                            solo[t] = ("raise", type(e).__name__)
        th = threading.Thread(target=alone, daemon=True)
        th.start()
        th.join(120)
        if th.is_alive():
            rec.timeout("solo compiles of thread run %d did not finish" % run)
            continue
        got = [[] for _ in range(nthreads)]

        def work(k):
            for rep in range(2):
                for src, t in texts[k]:
                    try:
                        got[k].append((src, t, ("ok", str(jp.compile(t)))))
                    except BaseException as e:  # noqa: BLE001
                        got[k].append((src, t, ("raise", type(e).__name__ + ": " + str(e)[:120])))
        hung, switches, sites, errors = run_threads(jp, "%s/%d" % (spec["seed"], run), nthreads, work, R.choice([0.05, 0.2, 0.5]))
        if hung:
            rec.timeout("thread run %d did not finish" % run)
            continue
        rec.feat("thread-runs")
        rec.feat("thread-switches-inside-package", switches)
        rec.case(("threads", spec["seed"], run), switches > 0)
        bad = None
        for k in range(nthreads):
            for src, t, o in got[k]:
                if solo[t][0] != "ok":
                    rec.feat("thread-solo-refused:" + src)
                    continue
                rec.monitor("M-compile")
                rec.feat("thread-compile:" + src)
                if o != solo[t] and bad is None:
                    bad = {"query": t if len(t) < 300 else t[:120] + " ... (%d characters)" % len(t), "source": src, "compiled_alone": solo[t][1][:200],
                           "compiled_concurrently": list(o)[:2], "threads": nthreads, "switches_inside_package": switches}
        if bad:
            rec.violation("concurrent-compile-differs", bad)


def finish(m, tier):
    out = []
    if m["features"].get("thread-runs", 0) and m["features"].get("thread-switches-inside-package", 0) == 0:
        out.append("the concurrent part observed no thread switch inside package code")
    if m["features"].get("generator-slip", 0) or m["features"].get("selfcheck-disagreement", 0) or m["features"].get("selfcheck-ast-mismatch", 0):
        m["notes"].append("generator/recogniser self-check disagreements are machinery defects, see notes")
    return out


def replay(case, rec):
    import jsonpath_rfc9535 as jp
    rec.case("r1", True)
    rec.case("r2", True)
    try_compile(jp, rec, case["query"], case.get("source", "replay"))
