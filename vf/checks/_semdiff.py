"""Shared reference-model monitor on find()/finditer(): real nodelist vs RFC 9535 model (used by C01, C02)."""
from __future__ import annotations

import random

from ..gen import queries as G
from ..gen import docs as D
from ..oracle import sem
from .. import mon, shrink
from ..worker import guard, CaseTimeout, jsonable

MODEL = sem.Model()


def check_case(jp, text, q, doc, rec, via):
    want = mon.want_sig(MODEL.find(q, doc))
    if via == "find":
        o = mon.observe(jp.find, text, doc)
        got = mon.sig(o[1]) if o[0] == "ok" else None
    elif isinstance(via, tuple) and via[0] == "toggle":
        # one environment instance whose nondeterministic flag was switched on and off again: the same query text must
        # afterwards give the deterministic result
        def run():
            env = via[1]
            env.nondeterministic = True
            try:
                env.find(text, doc)
            except Exception:  # noqa: BLE001
                pass
            env.nondeterministic = False
            return list(env.finditer(text, doc))
        o = mon.observe(run)
        got = mon.sig(o[1]) if o[0] == "ok" else None
    elif isinstance(via, tuple) and via[0] == "reuse":
        # one compiled query: an abandoned evaluation on another document first, then the evaluation that is checked
        def run():
            c = jp.compile(text)
            try:
                c.find_one(via[1])
                it = iter(c.finditer(via[1]))
                next(it, None)
                del it
            except Exception:  # noqa: BLE001
                pass
            return list(c.finditer(doc))
        o = mon.observe(run)
        got = mon.sig(o[1]) if o[0] == "ok" else None
    else:
        o = mon.observe(jp.compile, text)
        cond = mon.HOST["last"]
        if o[0] == "ok":
            c_ = o[1]
            o = mon.observe(lambda: list(c_.finditer(doc)))
            mon.HOST["last"] = mon.HOST["last"] or cond
        got = mon.sig(o[1]) if o[0] == "ok" else None
    rec.monitor("M-find")
    if o[0] != "ok":
        return "exception:" + type(o[1]).__name__, want, mon.describe_outcome(o)
    if got != want:
        if sorted(map(repr, got)) == sorted(map(repr, want)):
            return "order", want, got
        if [l for l, _ in got] == [l for l, _ in want]:
            return "value-identity", want, got
        return "nodes", want, got
    return None, want, got


def report(jp, rec, key, text, q, doc, via):
    cond = mon.HOST["last"]
    if cond is None:
        return _report(jp, rec, key, text, q, doc, via, None)
    with mon.forced(cond):
        return _report(jp, rec, key, text, q, doc, via, cond)


def _report(jp, rec, key, text, q, doc, via, cond):
    # minimise: document first, then the query (canonical spelling) if the failure survives re-rendering
    def fails_doc(d):
        k, _, _ = check_case(jp, text, q, d, _Null(), via)
        return k == key
    doc2 = shrink.shrink_doc(doc, fails_doc)
    canon = G.render(q, random.Random(0), canonical=True)
    q2, text2 = q, text
    k, _, _ = check_case(jp, canon, q, doc2, _Null(), via)
    if k == key:
        def fails_q(c):
            kk, _, _ = check_case(jp, G.render(c, random.Random(0), canonical=True), c, doc2, _Null(), via)
            return kk == key
        q2 = shrink.shrink_query(q, fails_q)
        text2 = G.render(q2, random.Random(0), canonical=True)
        doc2 = shrink.shrink_doc(doc2, lambda d: check_case(jp, text2, q2, d, _Null(), via)[0] == key)
    k, want, got = check_case(jp, text2, q2, doc2, _Null(), via)
    rec.violation(key, {"query": text2, "ast": jsonable(q2), "document": jsonable(doc2), "via": via if isinstance(via, str) else [via[0], jsonable(via[1]) if via[0] == "reuse" else "environment instance toggled nondeterministic on/off"],
                        "expected_locations": mon.locs_only(want), "observed": mon.locs_only(got) if isinstance(got, list) else got,
                        "original_query": text, "host_condition": list(cond) if cond else None})


class _Null:
    def monitor(self, *a):
        pass


def replay(case, rec):
    import jsonpath_rfc9535 as jp
    q = _tuplify(case["ast"])
    via = case.get("via", "find")
    if isinstance(via, list):
        if via[0] == "toggle":
            from jsonpath_rfc9535 import JSONPathEnvironment
            via = ("toggle", JSONPathEnvironment())
        else:
            via = ("reuse", via[1])
    key, want, got = check_case(jp, case["query"], q, case["document"], rec, via)
    rec.case(case["query"], True)
    rec.case(case["query"] + "#", True)
    if key:
        rec.violation(key, case)


def _tuplify(x):
    if isinstance(x, list):
        return tuple(_tuplify(y) for y in x)
    return x
