"""C01 — structural selection follows RFC 9535 (reference-model monitor on find())."""
from __future__ import annotations

import random

from ..gen import queries as G
from ..gen import docs as D
from ..worker import guard, CaseTimeout
from . import _semdiff as SD
from ._semdiff import replay  # noqa: F401

PROPERTY = "C01"
RULE = ("AST-first random filter-free queries (0-4 child/descendant segments, 1-3 selectors incl. repeated/overlapping, "
        "hostile member names) rendered with random lexical spelling, applied through env.find and compile().finditer to "
        "documents planted from the query; oracle = literal RFC 9535 nodelist semantics. Non-trivial: expected nodelist "
        "non-empty and (>=2 segments or >=2 selectors or a descendant segment); distinct by (AST, document)."
        " A quarter of the cases go through one compiled query that was first abandoned half-way on another document (find_one / partial finditer), and some through an environment instance whose nondeterministic flag was switched on and off again before the checked call. A concurrent part lets 4-8 threads compile and evaluate their own queries (some with 20-120 selectors in a segment) on the shared default environment with GIL hand-offs injected on package lines; every result is compared with the model. A stream battery builds, queries and drops 192 same-shaped wide documents (256-1000 members) one after the other.")
ASSUMPTIONS = ["reference evaluator vf/oracle/sem.py transcribes RFC 9535 2.3/2.5 correctly (cross-validated against the repository's IETF example tables by ./selfcheck)",
               "documents are JSON values as json.load yields them (dict/list/str/int/float/bool/None, string keys)"]
DECIDING_MONITORS = ["M-find"]


def plan(tier, seed, nproc, scale):
    total = int((240000 if tier == "quick" else 3000000) * scale)
    shards = nproc if tier == "quick" else nproc * 4
    per = max(1, total // shards)
    specs = [{"kind": "random", "seed": "%d/%d" % (seed, i), "n": per} for i in range(shards)]
    specs += [{"kind": "threads", "seed": "%d/t%d" % (seed, i), "runs": 2 if tier == "quick" else 12} for i in range(4 if tier == "quick" else nproc)]
    return specs


def thread_part(jp, rec, R, spec):
    """4-8 threads compile and evaluate their own queries on the shared default environment at the same time (GIL hand-offs
    injected on lines of the package); every result is compared with the model like in the sequential part."""
    from ..threads import run_threads
    from .. import mon
    cfg = G.Cfg(filters=False, max_segments=4, big_ints=True)
    gen = G.QGen(R, cfg)
    for run in range(spec["runs"]):
        nthreads = R.choice([4, 6, 8])
        work_items = []
        for k in range(nthreads):
            items = []
            for _ in range(14):
                q = gen.query(root="$", nofilter=True)
                if R.random() < 0.3:
                    # many selectors in one segment: long enough for other threads to get a turn in the middle
                    q = ("q", "$", (("child", tuple(R.choice([("idx", R.randint(-3, 3)), ("name", R.choice("abc")), ("wild",), ("slice", None, None, R.choice([1, -1]))]) for _ in range(R.randint(20, 120)))),) + q[2][:1])
                doc = D.doc_for(R, q, maxdepth=3, maxwidth=4, shapes=0)
                items.append((q, G.render(q, R, ws=R.choice(["none", "sparse"])), doc, mon.want_sig(SD.MODEL.find(q, doc))))
            work_items.append(items)
        got = [[] for _ in range(nthreads)]

        def work(k):
            for q, text, doc, want in work_items[k]:
                got[k].append(mon._plain(lambda: mon.sig(jp.compile(text).find(doc)), ()))
        hung, switches, sites, errors = run_threads(jp, "%s/%d" % (spec["seed"], run), nthreads, work, R.choice([0.05, 0.2, 0.5]))
        if hung:
            rec.timeout("thread run %d did not finish" % run)
            continue
        rec.feat("thread-runs")
        rec.feat("thread-switches-inside-package", switches)
        rec.case(("threads", spec["seed"], run), switches > 0)
        for k in range(nthreads):
            for (q, text, doc, want), o in zip(work_items[k], got[k]):
                rec.monitor("M-find")
                if o[0] != "ok" or o[1] != want:
                    rec.violation("concurrent-use:" + ("nodes" if o[0] == "ok" else "exception:" + type(o[1]).__name__),
                                  {"query": text[:300], "document": D.short(doc, 600), "threads": nthreads, "expected_locations": mon.locs_only(want)[:10],
                                   "observed": mon.locs_only(o[1])[:10] if o[0] == "ok" else mon.describe_outcome(o), "switches_inside_package": switches})
                    break


def finish(m, tier):
    sw = m["features"].get("thread-switches-inside-package", 0)
    m["extra"]["thread_switches_inside_package"] = sw
    if m["features"].get("thread-runs", 0) and sw == 0:
        return ["the concurrent part observed no thread switch inside package code"]
    return []


def stream_battery(jp, rec, R):
    """A stream of same-shaped wide documents, each built, queried and dropped before the next one is built (the next one
    usually lands at the same addresses): every result is compared with the model."""
    abn = __import__("vf.oracle.abnf", fromlist=["x"]).get(True)
    texts = ["$..id", "$..*", "$..[0]", "$[*]..id", "$..['id','tag']", "$.wide..id"]
    asts = {t: abn.ast(t) for t in texts}
    for width in (256, 300, 400, 1000):
        for kind in ("object", "array"):
            for rnd in range(24):
                nested = {(rnd * 7 + j * 53) % width for j in range(5)}
                if kind == "object":
                    wide = {"k%03d" % i: ({"id": i, "tag": "hit"} if i in nested else i) for i in range(width)}
                else:
                    wide = [([{"id": i}, i] if i in nested else i) for i in range(width)]
                doc = {"meta": {"id": -rnd}, "wide": wide} if rnd % 2 else [wide, {"id": rnd}]
                text = texts[rnd % len(texts)]
                key, want, got = SD.check_case(jp, text, asts[text], doc, rec, "finditer")
                rec.case(("stream", width, kind, rnd), True)
                rec.feat("stream-of-wide-documents")
                if key:
                    rec.violation(key, {"query": text, "document": "document %d of a stream of same-shaped documents: %s of %d members, nested containers at %s" % (rnd, kind, width, sorted(nested)),
                                        "expected_nodes": len(want), "observed": len(got) if isinstance(got, list) else got})
                    return
                del doc, wide


def run_shard(spec, rec):
    import jsonpath_rfc9535 as jp
    R = random.Random(spec["seed"])
    if spec.get("kind") == "threads":
        thread_part(jp, rec, R, spec)
        return
    if str(spec["seed"]).split("/")[-1] in ("0", "1"):
        stream_battery(jp, rec, R)
    cfg = G.Cfg(filters=False, max_segments=4, big_ints=True)
    gen = G.QGen(R, cfg)
    from jsonpath_rfc9535 import JSONPathEnvironment
    toggled = JSONPathEnvironment()
    for _ in range(spec["n"]):
        q = gen.query(root="$", nofilter=True)
        doc = D.doc_for(R, q, maxdepth=R.choice([3, 4, 5]), maxwidth=R.choice([3, 4, 5]), feat=rec.features)
        text = G.render(q, R, feat=rec.features)
        via = R.choice(["find", "finditer", "finditer"])
        if R.random() < 0.25:
            via = ("reuse", D.doc_for(R, q, maxdepth=3, maxwidth=3, shapes=0))
        elif R.random() < 0.1:
            via = ("toggle", toggled)
        try:
            with guard(20):
                key, want, got = SD.check_case(jp, text, q, doc, rec, via)
        except CaseTimeout:
            rec.timeout(text)
            continue
        nontrivial = bool(want) and (len(q[2]) >= 2 or any(len(s[1]) >= 2 or s[0] == "desc" for s in q[2]))
        rec.case((q, D.short(doc, 4000)), nontrivial)
        if nontrivial:
            rec.sample({"query": text, "document": D.short(doc), "nodes": len(want)})
        if key:
            SD.report(jp, rec, key, text, q, doc, via)
