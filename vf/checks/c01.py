"""C01 — structural selection follows RFC 9535 (reference-model monitor on find())."""
from __future__ import annotations

import random

from ..gen import queries as G
from ..gen import docs as D
from ..oracle import sem
from .. import mon, shrink
from ..worker import guard, CaseTimeout, jsonable

PROPERTY = "C01"
RULE = ("AST-first random filter-free queries (0-4 child/descendant segments, 1-3 selectors incl. repeated/overlapping, "
        "hostile member names) rendered with random lexical spelling, applied through env.find and compile().finditer to "
        "documents planted from the query; oracle = literal RFC 9535 nodelist semantics. Non-trivial: expected nodelist "
        "non-empty and (>=2 segments or >=2 selectors or a descendant segment); distinct by (AST, document).")
ASSUMPTIONS = ["reference evaluator vf/oracle/sem.py transcribes RFC 9535 2.3/2.5 correctly (cross-validated against the repository's IETF example tables by ./selfcheck)",
               "documents are JSON values as json.load yields them (dict/list/str/int/float/bool/None, string keys)"]
DECIDING_MONITORS = ["M-find"]

MODEL = sem.Model()


def plan(tier, seed, nproc, scale):
    total = int((60000 if tier == "quick" else 1500000) * scale)
    shards = nproc if tier == "quick" else nproc * 4
    per = max(1, total // shards)
    return [{"kind": "random", "seed": "%d/%d" % (seed, i), "n": per} for i in range(shards)]


def check_case(jp, text, q, doc, rec, via):
    want = mon.want_sig(MODEL.find(q, doc))
    if via == "find":
        o = mon.observe(jp.find, text, doc)
        got = mon.sig(o[1]) if o[0] == "ok" else None
    else:
        o = mon.observe(lambda: list(jp.compile(text).finditer(doc)))
        got = mon.sig(o[1]) if o[0] == "ok" else None
    rec.monitor("M-find")
    if o[0] != "ok":
        return "exception:" + type(o[1]).__name__, want, mon.describe_outcome(o)
    if got != want:
        if sorted(map(repr, got)) == sorted(map(repr, want)):
            return "order", want, got
        if [l for l, _ in got] == [l for l, _ in want]:
            return "value-identity", want, got
        return "nodes", want, got
    return None, want, got


def run_shard(spec, rec):
    import jsonpath_rfc9535 as jp
    R = random.Random(spec["seed"])
    cfg = G.Cfg(filters=False, max_segments=4)
    gen = G.QGen(R, cfg)
    for _ in range(spec["n"]):
        q = gen.query(root="$", nofilter=True)
        doc = D.doc_for(R, q, maxdepth=R.choice([3, 4, 5]), maxwidth=R.choice([3, 4, 5]))
        text = G.render(q, R, feat=rec.features)
        via = R.choice(["find", "finditer"])
        try:
            with guard(20):
                key, want, got = check_case(jp, text, q, doc, rec, via)
        except CaseTimeout:
            rec.timeout(text)
            continue
        nontrivial = bool(want) and (len(q[2]) >= 2 or any(len(s[1]) >= 2 or s[0] == "desc" for s in q[2]))
        rec.case((q, D.short(doc, 4000)), nontrivial)
        if nontrivial:
            rec.sample({"query": text, "document": D.short(doc), "nodes": len(want)})
        if key:
            report(jp, rec, key, text, q, doc, via)


def report(jp, rec, key, text, q, doc, via):
    # minimise: document first, then the query (canonical spelling) if the failure survives re-rendering
    def fails_doc(d):
        k, _, _ = check_case(jp, text, q, d, _Null(), via)
        return k == key
    doc2 = shrink.shrink_doc(doc, fails_doc)
    canon = G.render(q, random.Random(0), canonical=True)
    q2, text2 = q, text
    k, _, _ = check_case(jp, canon, q, doc2, _Null(), via)
    if k == key:
        def fails_q(c):
            kk, _, _ = check_case(jp, G.render(c, random.Random(0), canonical=True), c, doc2, _Null(), via)
            return kk == key
        q2 = shrink.shrink_query(q, fails_q)
        text2 = G.render(q2, random.Random(0), canonical=True)
        doc2 = shrink.shrink_doc(doc2, lambda d: check_case(jp, text2, q2, d, _Null(), via)[0] == key)
    k, want, got = check_case(jp, text2, q2, doc2, _Null(), via)
    rec.violation(key, {"query": text2, "ast": jsonable(q2), "document": jsonable(doc2), "via": via,
                        "expected_locations": mon.locs_only(want), "observed": mon.locs_only(got) if isinstance(got, list) else got,
                        "original_query": text})


class _Null:
    def monitor(self, *a):
        pass


def replay(case, rec):
    import jsonpath_rfc9535 as jp
    q = _tuplify(case["ast"])
    key, want, got = check_case(jp, case["query"], q, case["document"], rec, case.get("via", "find"))
    rec.case(case["query"], True)
    rec.case(case["query"] + "#", True)
    if key:
        rec.violation(key, case)


def _tuplify(x):
    if isinstance(x, list):
        return tuple(_tuplify(y) for y in x)
    return x
