"""C13 — compile() and find() are total: they return or raise a JSONPathError."""
from __future__ import annotations

import ast as pyast
import os
import random
import sys

from ..gen import queries as G
from ..gen import docs as D
from .. import mon
from ..worker import guard, CaseTimeout, jsonable

PROPERTY = "C13"
RULE = ("strings from 8 sources — valid generated queries (filters, functions, hostile names), single/double token- and character-level edits "
        "of those, every prefix (truncation at each offset), token soup over a 60-token alphabet, random Unicode garbage up to 1024 chars, "
        "nesting up to 32 of parentheses/filters/function calls, pumped strings (a short piece repeated up to the 1024-character bound, randomly and as a battery of every token x 19 positions), numeric extremes — compiled with the default environment; every query "
        "that compiles is applied to roots and children of every JSON kind, empty containers and depth-100 documents. Refuted by any "
        "exception that is not a JSONPathError, by str(exc) raising, or by the worker dying. Non-trivial: the string is not a plain "
        "generated valid query (edited/truncated/soup/garbage/nesting/extreme) or was evaluated on >=1 document; distinct by string. "
        "raise_sites = (file:line, exception type) places inside the package where an exception was raised during the run (sys.monitoring RAISE)."
        " 30% of the evaluations also run on a nondeterministic environment.")
ASSUMPTIONS = ["bounds of the property: <=1024 characters, bracket/parenthesis/filter nesting <=32, Unicode scalar values only",
               "a wall-clock watchdog firing is reported as inconclusive, not as a violation"]
DECIDING_MONITORS = ["M-compile"]
STALL_S = 300

TOKENS = ["$", "@", ".", "..", "[", "]", "(", ")", "?", ",", ":", "*", "!", "&&", "||", "==", "!=", "<", "<=", ">", ">=", "'a'", '"a"',
          "1", "-1", "01", "-0", "1.5", "1e400", "1e-400", "-0e-999", "9" * 40, "a", "true", "false", "null", "length(", "count(", "value(",
          "match(", "search(", "f(", " ", "\n", "\t", "\r", "'", '"', "\\", "\\u", "\\ud83d", "é", "\U0001F600", "\x00", "\x7f", "_", "-", "=", "&", "|", "~", "#", "{", "}", "0", "e", "E", "+", "/",
          "\u00b2", "\u2460", "\u0663", "\uff11", "1\u00b2", "-\u0661", "\u00bd", "\u0e51", "\U0001d7d9",
          "%", "%s", "%d", "%(a)s", "{}", "{0}", "%%", "a%b", ":1.5", ":2.0e3", ":-0.5", ":1", "1.5:", ":1e-2"]
GARBAGE = list("$@.[]()?,:*!&|=<>'\"\\ \n\t\r-+eE0123456789abcfnrtu_{}#~/") + ["é", "\U0001F600", " ", "\x00", "\x1f", "\u00b2", "\u2460", "\u0663", "\uff11", "￿", "퟿", "\U0010ffff", "ÿ"]

ROOTS = [None, True, False, 0, 1, -1, 1.5, "", "abc", [], {}, [None], [0, "a", [], {}], {"a": 1}, {"a": {"b": [1, 2, {"c": None}]}, "b": "x"},
         [[1, 2], [3], []], {"a": [], "b": {}, "c": ""}, [10**400, -10**400, 1, 1.5, "a"], {"a": 10**400, "b": -(10**310)}, 10**400, [{"a": 1, "b": 2}, {"a": "1"}, {"a": [1]}, {"a": None}, "a", 1, None, True, [], {}]]


def deep_doc(n, kind):
    d = cur = [] if kind == "list" else {}
    for i in range(n - 1):
        nxt = [] if (kind == "list" or (kind == "mix" and i % 2)) else {}
        if isinstance(cur, list):
            cur.append(nxt)
        else:
            cur["a"] = nxt
        cur = nxt
    return d


def nesting(s):
    d = m = 0
    for ch in s:
        if ch in "([":
            d += 1
            m = max(m, d)
        elif ch in ")]":
            d = max(0, d - 1)
    return m


class RaiseSites:
    def __init__(self, repo_pkg):
        self.pkg = repo_pkg
        self.sites = {}
        self.on = False

    def start(self):
        mon_ = getattr(sys, "monitoring", None)
        if mon_ is None:
            return
        try:
            mon_.use_tool_id(mon_.DEBUGGER_ID, "vf-raise")
            mon_.register_callback(mon_.DEBUGGER_ID, mon_.events.RAISE, self.cb)
            mon_.set_events(mon_.DEBUGGER_ID, mon_.events.RAISE)
            self.on = True
        except Exception:  # noqa: BLE001
            self.on = False

    def cb(self, code, offset, exc):
        fn = code.co_filename
        if fn.startswith(self.pkg):
            try:
                line = sys._getframe(1).f_lineno
            except Exception:  # noqa: BLE001
                line = 0
            k = "%s:%d %s" % (os.path.relpath(fn, self.pkg), line, type(exc).__name__)
            self.sites[k] = self.sites.get(k, 0) + 1

    def stop(self):
        if self.on:
            m = sys.monitoring
            m.set_events(m.DEBUGGER_ID, 0)
            m.free_tool_id(m.DEBUGGER_ID)


def raise_statements(pkg):
    out = set()
    for root, _, files in os.walk(pkg):
        for f in files:
            if f.endswith(".py"):
                p = os.path.join(root, f)
                try:
                    tree = pyast.parse(open(p).read())
                except SyntaxError:
                    continue
                for node in pyast.walk(tree):
                    if isinstance(node, pyast.Raise):
                        out.add("%s:%d" % (os.path.relpath(p, pkg), node.lineno))
    return out


def plan(tier, seed, nproc, scale):
    total = int((100000 if tier == "quick" else 2500000) * scale)
    shards = nproc if tier == "quick" else nproc * 4
    return [{"kind": "random", "seed": "%d/%d" % (seed, i), "n": total // shards} for i in range(shards)]


def gen_string(R, gen, valid_pool):
    r = R.random()
    if r < 0.15 or not valid_pool:
        q = gen.query(root="$")
        t = G.render(q, R)
        valid_pool.append(t)
        if len(valid_pool) > 200:
            valid_pool.pop(R.randrange(len(valid_pool)))
        return "valid", t
    if r < 0.45:
        t = R.choice(valid_pool)
        for _ in range(R.choice([1, 1, 2, 3])):
            t = edit(R, t)
        return "edited", t
    if r < 0.55:
        t = R.choice(valid_pool)
        return "prefix", t[:R.randint(0, len(t))]
    if r < 0.75:
        n = R.choice([1, 2, 3, 4, 5, 6, 8, 12, 20, 40])
        sep = R.choice(["", "", " "])
        return "soup", "$" * (R.random() < 0.8) + sep.join(R.choice(TOKENS) for _ in range(n))
    if r < 0.85:
        n = R.choice([1, 3, 10, 50, 200, 1024])
        return "garbage", "".join(R.choice(GARBAGE) for _ in range(n))[:1024]
    if r < 0.88:
        # pumped: a short piece of a (valid or edited) query repeated until the string is long (flat repetition, not nesting)
        t = R.choice(valid_pool)
        if R.random() < 0.3:
            t = edit(R, t)
        if not t:
            t = "$"
        i = R.randrange(len(t))
        piece = t[i:i + R.choice([1, 1, 2, 3, 4])] if R.random() < 0.7 else R.choice(TOKENS)
        room = max(0, 1024 - len(t)) // max(1, len(piece))
        k = min(room, R.choice([33, 100, 300, 1024]))
        return "pumped", t[:i] + piece * k + t[i:]
    if r < 0.94:
        d = R.randint(1, 32)
        k = R.choice(["paren", "filter", "call", "not-paren", "mixed"])
        inner = R.choice(["@", "@.a", "@.a==1", "1", "", "$", "@.a && @.b", "length(@)==1"])
        if k == "paren":
            t = "$[?" + "(" * d + inner + ")" * d + "]"
        elif k == "not-paren":
            t = "$[?" + "!(" * d + inner + ")" * d + "]"
        elif k == "filter":
            t = "$" + "[?@" * d + "[?" + inner + "]" + "]" * d
        elif k == "call":
            t = "$[?" + "length(" * d + inner + ")" * d + "==1]"
        else:
            t = "$[?" + "".join(R.choice(["(", "!(", "@[?"]) for _ in range(d)) + inner
            # close in reverse
            t += "".join(")" if c != "@[?" else "]" for c in reversed(_opened(t))) + "]"
        if R.random() < 0.3:
            t = edit(R, t)
        return "nesting", t
    ext = R.choice(["1e400", "-1e400", "1e-400", "9" * 400, "-" + "9" * 400, "0." + "0" * 400 + "1", "1" + "0" * 30 + "e-30", "-0e-999", "1e+400",
                    "1.7976931348623157e308", "2e308", "5e-324", "1e-999", "9007199254740993", "1E400", "-0.0e0", "123456789012345678901234567890"])
    pos = R.choice(["$[?@.a==%s]", "$[%s]", "$[%s:]", "$[::%s]", "$[?length(@)<%s]", "$[?%s==%s]", "$[?@[%s]]", "$.a[?count(@.*)>=%s]"])
    return "extreme", pos.replace("%s", ext)


def _opened(t):
    out = []
    i = 3
    while i < len(t):
        if t.startswith("!(", i):
            out.append("!(")
            i += 2
        elif t.startswith("@[?", i):
            out.append("@[?")
            i += 3
        elif t[i] == "(":
            out.append("(")
            i += 1
        else:
            break
    return out


def edit(R, t):
    if not t:
        return R.choice(TOKENS)
    i = R.randrange(len(t) + 1)
    op = R.choice(["ins", "ins", "del", "rep", "swap", "dup"])
    tok = R.choice(TOKENS) if R.random() < 0.7 else R.choice(GARBAGE)
    if op == "ins":
        return t[:i] + tok + t[i:]
    if op == "del":
        j = min(len(t), i + R.choice([1, 1, 2, 3]))
        return t[:i] + t[j:]
    if op == "rep":
        return t[:i] + tok + t[i + 1:]
    if op == "swap" and i + 1 < len(t):
        return t[:i] + t[i + 1] + t[i] + t[i + 2:]
    return t[:i] + t[i:i + 3] + t[i:]


def run_shard(spec, rec):
    import jsonpath_rfc9535 as jp
    from jsonpath_rfc9535 import JSONPathError
    pkg = os.path.dirname(os.path.abspath(jp.__file__))
    sites = RaiseSites(pkg)
    sites.start()
    R = random.Random(spec["seed"])
    cfg = G.Cfg(filters=True, regex_functions=True, big_ints=True, max_depth=3)
    cfg.regex_pool = cfg.regex_pool + G.HOSTILE_PATTERNS
    gen = G.QGen(R, cfg)
    pool = []
    from jsonpath_rfc9535 import JSONPathEnvironment
    nd_env = type("NDEnv", (JSONPathEnvironment,), {"nondeterministic": True})()
    deep = [deep_doc(100, "list"), deep_doc(100, "dict"), deep_doc(100, "mix"), deep_doc(101, "list"), deep_doc(130, "mix")]
    try:
        for _ in range(spec["n"]):
            src, text = gen_string(R, gen, pool)
            if len(text) > 1024 or nesting(text) > 32 or any(0xD800 <= ord(c) <= 0xDFFF for c in text):
                rec.feat("skipped:out-of-bounds")
                continue
            rec.wal({"compile": text})
            evaluated = 0
            try:
                with guard(30):
                    o = mon.observe(jp.compile, text)
                    rec.monitor("M-compile")
                    rec.feat("source:%s:%s" % (src, "compiles" if o[0] == "ok" else "rejected"))
                    bad = outcome_bad(o)
                    if bad:
                        small = text
                        if rec.viol_counts.get("compile:" + bad, 0) == 0:
                            from ..shrink import shrink_text
                            small = shrink_text(text, lambda t: outcome_bad(mon.observe(jp.compile, t)) == bad, budget=150)
                        rec.violation("compile:" + bad, {"query": small, "original_query": text, "source": src, "observed": mon.describe_outcome(mon.observe(jp.compile, small))})
                    if o[0] == "ok":
                        q = o[1]
                        docs = [R.choice(ROOTS) for _ in range(3)]
                        if R.random() < 0.5:
                            docs.append(D.gen_value(R, ["a", "b", "c", ""], D.LEAVES, 0, 4, 4))
                        if R.random() < 0.08:
                            docs.append(R.choice(deep))
                        qs = [q]
                        if R.random() < 0.3:
                            o_nd = mon.observe(nd_env.compile, text)
                            if o_nd[0] == "ok":
                                qs.append(o_nd[1])
                                rec.feat("evaluated-in-nondeterministic-mode")
                        for d in docs:
                          for q in qs:
                            rec.wal({"compile": text, "apply_to": D.short(d, 300)})
                            o2 = mon.observe(lambda: list(q.finditer(d)))
                            rec.monitor("M-find")
                            evaluated += 1
                            bad = outcome_bad(o2)
                            if bad:
                                rec.violation("find:" + bad, {"query": text, "source": src, "document": jsonable(d) if len(repr(d)) < 2000 else "<deep document>",
                                                              "observed": mon.describe_outcome(o2)})
                            elif o2[0] == "jperr":
                                rec.feat("eval-error:" + type(o2[1]).__name__)
            except CaseTimeout:
                rec.timeout(text)
                continue
            rec.case(text, src != "valid" or evaluated > 0)
            if src != "valid":
                rec.sample({"source": src, "string": text[:200], "compiles": o[0] == "ok"}, limit=8)
    finally:
        sites.stop()
    # comparison battery: every ordered pair of structured values under every operator, from queries and from value()
    CMPV = [None, True, 0, 1.5, "a", [], [1], [[1]], [{"x": 1}], {}, {"x": 1}, {"y": 1}, {"x": 2}, {"x": 1, "y": 2}, {"y": 2, "x": 1}, {"x": {"p": 1}}, {"x": {"q": 1}},
            {"x": [1, {"k": 0}]}, {"x": [1, {"j": 0}]}, 10**400, [10**400], {"x": None}, {"y": None}]
    if spec.get("seed", "").endswith("/0") or True:
        for i_, a in enumerate(CMPV):
            for b in CMPV:
                doc = [{"a": a, "b": b}, {"a": b, "b": a}, {"a": a}, a]
                for text in ("$[?@.a == @.b]", "$[?@.a != @.b]", "$[?@.a <= @.b]", "$[?@.a > @.b]", "$[?value(@.a) == value(@.b)]", "$[?@ == $[3]]", "$[?$[0].a >= @.b]"):
                    rec.wal({"compile": text, "apply_to": D.short(doc, 300)})
                    o2 = mon.observe(lambda: list(jp.finditer(text, doc)))
                    rec.monitor("M-find")
                    rec.case((text, D.short(doc, 500)), True)
                    bad = outcome_bad(o2)
                    if bad:
                        rec.violation("find:" + bad, {"query": text, "source": "comparison-battery", "document": jsonable(doc), "observed": mon.describe_outcome(o2)})
        rec.feat("comparison-battery")
    # literal battery: every class of malformed string literal in every position
    for q_ in "'\"":
        other = '"' if q_ == "'" else "'"
        bodies = ["\\" + other, "a\\" + other + "b", "\\x", "\\u", "\\u12", "\\u12g4", "\\u-001", "\\u+041", "\\u 041", "\\ud800", "\\udc00", "\\ud800\\u0041", "\\ud800\\ud800",
                  "\\", "a\\", "\x01", "a\nb", "\\U0041", "\\N", "\\0", "\\u00", "\\ud83d\\u", "\\udfff\\ud800", "\\u0x41", "\\u１２３４",
                  "\\udbff\\uffff", "\\udbf8\\ufc00", "\\ud800\\ufffd", "\\udbff\\ue000", "\\ud83d\\ufe0f", "\\udbff\\udfff\\uffff", "\\uffff", "\\ufc00", "\\ufffe\\udc00", "\\udbff\\u0000", "100%", "%s", "%d %(x)s", "{0}{}", "%"]
        for body in bodies:
            for tmpl in ("$[%s]", "$[?@ == %s]", "$[?match(@, %s)]", "$[0, %s]", "$..[%s, 1]", "$[?%s == %s]", "$[?length(%s) > 1]"):
                text = tmpl.replace("%s", q_ + body + q_)
                o = mon.observe(jp.compile, text)
                rec.monitor("M-compile")
                rec.case(text, True)
                bad = outcome_bad(o)
                if bad:
                    rec.violation("compile:" + bad, {"query": text, "source": "literal-battery", "observed": mon.describe_outcome(o)})
    rec.feat("literal-battery")
    # repetition battery: every token repeated up to the length bound in every kind of position (long flat strings: the
    # lexer, the parser and the evaluator must not recurse once per repetition)
    pieces = TOKENS + ["!@", ".a", "[0]", ",0", "&&@", "||@", "==1", ".*", "..a", "[*]", ",*", ":", "::", "[?@]", "@.a,", "1,", "'a',", " @ ", "- ", "! ", "$.a ", "@<1&&", "<@", "==@", "<1", "!=@", ">=1", "<=$", "== 1 ", "<'a'", "@<", "@==", "1<", "&&@<", "||1==", "<@.a", "<length(@)"]
    templates = ["$[?%s@]", "$[?%s@.a==1]", "$[?@%s]", "$%s", "$[%s]", "$[?@==%s1]", "$[?%s]", "$[?@.a%s==1]", "$[?count(@%s)>1]", "$[?f(%s)]", "$[?@&&%s@]", "$[0%s]",
                 "$.a[?@[?%s@]]", "$[?length(%s)==1]", "$[?$%s]", "%s", "$[?match(@%s,'a')]", "$['%s']", "$[?@=='%s']"]
    shard_no = int(str(spec.get("seed", "0/0")).split("/")[-1]) if str(spec.get("seed", "")).split("/")[-1].isdigit() else 0
    n_pumped = 0
    for pi, piece in enumerate(pieces):
        if pi % 4 != shard_no % 4:
            continue
        for tmpl in templates:
            room = (1024 - len(tmpl) + 2) // len(piece)
            for k in sorted({33, 120, room}):
                if k > room:
                    continue
                text = tmpl.replace("%s", piece * k)
                if len(text) > 1024 or nesting(text) > 32 or any(0xD800 <= ord(c) <= 0xDFFF for c in text):
                    continue
                rec.wal({"compile": text[:100] + "..."})
                try:
                    with guard(30):
                        o = mon.observe(jp.compile, text)
                        rec.monitor("M-compile")
                        rec.case(text, True)
                        n_pumped += 1
                        bad = outcome_bad(o)
                        if bad:
                            rec.violation("compile:" + bad, {"query": text, "source": "repetition-battery", "piece": piece, "repetitions": k, "template": tmpl,
                                                             "observed": mon.describe_outcome(o)})
                        elif o[0] == "ok":
                            rec.feat("repetition-battery:compiles")
                            for d in (ROOTS[12], ROOTS[14], ROOTS[-1]):
                                o2 = mon.observe(lambda: list(o[1].finditer(d)))
                                rec.monitor("M-find")
                                bad = outcome_bad(o2)
                                if bad:
                                    rec.violation("find:" + bad, {"query": text, "source": "repetition-battery", "piece": piece, "repetitions": k, "document": jsonable(d),
                                                                  "observed": mon.describe_outcome(o2)})
                except CaseTimeout:
                    rec.timeout(text[:200])
    rec.feat("repetition-battery", n_pumped)
    stmts = raise_statements(pkg)
    hit = {k.split(" ")[0] for k in sites.sites}
    rec.extra["raise_sites"] = sites.sites
    rec.extra["raise_statements_exercised"] = sorted(hit & stmts)
    rec.extra["raise_statements_total_list"] = sorted(stmts)


def outcome_bad(o):
    """None if the outcome is allowed, else a mechanism key."""
    k, v = o
    if k == "ok":
        return None
    if k == "jperr":
        try:
            s = str(v)
            if not isinstance(s, str):
                return "str-not-a-string"
        except Exception as e:  # noqa: BLE001
            return "str(error)-raises-" + type(e).__name__
        return None
    return "raises-" + type(v).__name__


def finish(m, tier):
    ex = m["extra"]
    total = sorted(set(ex.pop("raise_statements_total_list", [])))
    done = sorted(set(ex.get("raise_statements_exercised", [])))
    ex["raise_statements_exercised"] = done
    ex["raise_statements_total"] = len(total)
    ex["raise_statements_not_exercised"] = [x for x in total if x not in done]
    return []


def on_worker_failure(f):
    if f["kind"] == "died" and isinstance(f.get("rc"), int) and f["rc"] < 0:
        return ("violation", "worker-killed-by-signal-%d" % -f["rc"], {"last_case": f.get("last_case"), "stderr": (f.get("stderr") or "")[-800:]})
    return None


def replay(case, rec):
    import jsonpath_rfc9535 as jp
    rec.case("r1", True)
    rec.case("r2", True)
    o = mon.observe(jp.compile, case["query"])
    rec.monitor("M-compile")
    bad = outcome_bad(o)
    if bad:
        rec.violation("compile:" + bad, dict(case, observed=mon.describe_outcome(o)))
    elif o[0] == "ok" and "document" in case and not isinstance(case["document"], str):
        o2 = mon.observe(lambda: list(o[1].finditer(case["document"])))
        bad = outcome_bad(o2)
        if bad:
            rec.violation("find:" + bad, dict(case, observed=mon.describe_outcome(o2)))
