"""C08 — nodes carry exact locations and canonical, re-queryable normalized paths."""
from __future__ import annotations

import random

from ..gen import queries as G
from ..gen import docs as D
from ..oracle import strings as S
from .. import mon
from ..worker import guard, CaseTimeout, jsonable

PROPERTY = "C08"
RULE = ("every node returned by (a) random generated queries (with and without filters, descendant segments, negative indices, reverse "
        "slices) on planted documents with hostile member names and (b) a member-name sweep — every Unicode scalar value (quick: "
        "U+0000-U+2FFF, block boundaries, 3000 sampled; thorough: all 1,112,064) as a one-character name and embedded as 'x<cp>y', reached "
        "through wildcard, descendant, negative-index and reverse-slice selectors — is checked: walking node.location from the root ends "
        "at the very object node.value (identity); node.path() equals the RFC 9535 normalized path of that location computed by the "
        "independent renderer (single quotes; only \\b \\f \\n \\r \\t \\' \\\\ and lower-case \\u00xx escapes; non-negative indices); "
        "find(node.path(), value) returns exactly that one node; values()/paths()/items() agree with the nodes, also after the node list was reversed / sorted in place and restored. One case in twenty follows a compile that was rejected half-way through a quoted name on the same environment. Non-trivial: location of "
        "length >= 2 or a name that needs an escape; distinct by (document, location). A concurrent part lets 4-8 threads ask the nodes of same-shaped documents for path() / paths() / items() at the same time (GIL hand-offs injected on package lines); every answer equals the sequential one.")
ASSUMPTIONS = ["normalized path syntax per RFC 9535 2.7 as transcribed in vf/oracle/strings.py", "lone surrogates in member names are out of domain"]
DECIDING_MONITORS = ["M-node"]


def walk(root, loc):
    cur = root
    for k in loc:
        if isinstance(k, bool) or not isinstance(k, (int, str)):
            raise KeyError("bad key type %r" % (k,))
        if isinstance(k, int):
            if not isinstance(cur, list) or k < 0:
                raise KeyError("index %r on %s" % (k, type(cur).__name__))
            cur = cur[k]
        else:
            if not isinstance(cur, dict):
                raise KeyError("name %r on %s" % (k, type(cur).__name__))
            cur = cur[k]
    return cur


def check_nodes(jp, rec, query_text, doc, nodes, requery=True, max_nodes=200):
    """Returns (n checked, n nontrivial, violation or None)."""
    nt = 0
    # nodelist helpers
    try:
        if hasattr(nodes, "values"):
            # the node list is a list: asked again after it was reordered in place (reversed, swapped, sorted) the helpers
            # must describe the nodes as they are now
            for arrangement in ("as-returned", "reversed", "restored", "sorted-by-path", "restored"):
                if arrangement == "reversed":
                    nodes.reverse()
                elif arrangement == "sorted-by-path":
                    saved = list(nodes)
                    nodes.sort(key=lambda n: (len(n.location), repr(n.location)), reverse=True)
                elif arrangement == "restored":
                    if "saved" in locals():
                        nodes[:] = saved
                    else:
                        nodes.reverse()
                vals, paths, items = nodes.values(), nodes.paths(), nodes.items()
                rec.monitor("M-nodelist")
                w = {"node_list": arrangement}
                if len(vals) != len(nodes) or any(a is not n.value for a, n in zip(vals, nodes)):
                    return 0, 0, ("values()-disagrees", w)
                if paths != [n.path() for n in nodes]:
                    return 0, 0, ("paths()-disagrees", w)
                if len(items) != len(nodes) or any(p != n.path() or v is not n.value for (p, v), n in zip(items, nodes)):
                    return 0, 0, ("items()-disagrees", w)
                if len(nodes) < 2:
                    break
    except Exception as e:  # noqa: BLE001
        return 0, 0, ("nodelist-helper-raises-" + type(e).__name__, {})
    checked = 0
    for n in list(nodes)[:max_nodes]:
        rec.monitor("M-node")
        checked += 1
        loc = n.location
        w = {"location": jsonable(list(loc))}
        if not isinstance(loc, tuple):
            return checked, nt, ("location-not-a-tuple", w)
        try:
            reached = walk(doc, loc)
        except (KeyError, IndexError, TypeError) as e:
            return checked, nt, ("location-does-not-resolve", dict(w, error=str(e)[:100]))
        if reached is not n.value:
            return checked, nt, ("location-reaches-other-object", dict(w, value=jsonable(n.value), reached=jsonable(reached)))
        want = S.normalized_path(loc)
        try:
            got = n.path()
        except Exception as e:  # noqa: BLE001
            return checked, nt, ("path()-raises-" + type(e).__name__, w)
        if got != want:
            return checked, nt, ("path-not-normalized", dict(w, path=got, expected=want))
        needs_escape = any(isinstance(k, str) and S.normalized_name(k) != "'" + k + "'" for k in loc)
        if len(loc) >= 2 or needs_escape:
            nt += 1
        if requery:
            o = mon.observe(jp.find, got, doc)
            rec.monitor("M-requery")
            if o[0] != "ok":
                return checked, nt, ("path-does-not-requery", dict(w, path=got, observed=mon.describe_outcome(o)))
            r = o[1]
            if len(r) != 1 or r[0].location != loc or r[0].value is not n.value:
                return checked, nt, ("path-requery-selects-other-nodes", dict(w, path=got, observed=[jsonable(list(x.location)) for x in r][:5]))
    return checked, nt, None


def plan(tier, seed, nproc, scale):
    shards = nproc if tier == "quick" else nproc * 4
    n = int((16000 if tier == "quick" else 400000) * scale)
    specs = [{"kind": "random", "seed": "%d/%d" % (seed, i), "n": n // shards} for i in range(shards)]
    if tier == "quick":
        cps = list(range(0, 0x3000))
        specs += [{"kind": "names", "seed": "%d/n%d" % (seed, i), "mode": "list", "lo": i * 0x300, "hi": (i + 1) * 0x300} for i in range(16)]
        specs.append({"kind": "names", "seed": "%d/ns" % seed, "mode": "sample"})
    else:
        chunks = 128
        span = 0x110000 // chunks
        specs += [{"kind": "names", "seed": "%d/n%d" % (seed, i), "mode": "list", "lo": i * span, "hi": (i + 1) * span} for i in range(chunks)]
    specs += [{"kind": "threads", "seed": "%d/t%d" % (seed, i), "runs": 2 if tier == "quick" else 12} for i in range(4 if tier == "quick" else nproc)]
    return specs


def thread_part(jp, rec, R, spec):
    """Several threads ask nodes of same-shaped documents for path(), location and the node-list helpers at the same time
    (GIL hand-offs injected on lines of the package): every answer equals the one given sequentially."""
    from ..threads import run_threads
    for run in range(spec["runs"]):
        docs = [{"k": [{"a b": [i, {"c'd": [j for j in range(3)]}], "e\\f": {"g": i}} for i in range(4)], "n": {"x": [[1, 2], [3]]}} for _ in range(2)]
        lists = [jp.find(t, d) for d in docs for t in ("$..*", "$.k[*]['a b'][1]..*", "$..[?@]")]
        want = [[(tuple(n.location), S.normalized_path(n.location)) for n in nl] for nl in lists]
        nthreads = R.choice([4, 6, 8])
        got = [[] for _ in range(nthreads)]
        orders = [R.sample(range(len(lists)), len(lists)) for _ in range(nthreads)]

        def work(k):
            for rep in range(2):
                for li in orders[k]:
                    nl = lists[li]
                    ps = [n.path() for n in (nl if rep % 2 == 0 else reversed(nl))]
                    if rep % 2:
                        ps.reverse()
                    got[k].append((li, ps, nl.paths(), [p for p, _ in nl.items()]))
        hung, switches, sites, errors = run_threads(jp, "%s/%d" % (spec["seed"], run), nthreads, work, R.choice([0.05, 0.2, 0.5]))
        if hung:
            rec.timeout("thread run %d did not finish" % run)
            continue
        rec.feat("thread-runs")
        rec.feat("thread-switches-inside-package", switches)
        rec.case(("threads", spec["seed"], run), switches > 0)
        for k_, name, msg in errors:
            rec.violation("concurrent-path-raises-" + name, {"thread": k_, "message": msg})
        bad = None
        for k in range(nthreads):
            for li, ps, ps2, ps3 in got[k]:
                rec.monitor("M-node", len(ps))
                exp = [p for _, p in want[li]]
                for name, obs in (("path()", ps), ("paths()", ps2), ("items()", ps3)):
                    if obs != exp and bad is None:
                        i_ = next((i for i, (a, b) in enumerate(zip(obs, exp)) if a != b), 0)
                        bad = {"helper": name, "location": jsonable(list(want[li][i_][0])), "path_observed_concurrently": obs[i_] if i_ < len(obs) else None,
                               "path_sequential": exp[i_], "threads": nthreads, "switches_inside_package": switches}
        if bad:
            rec.violation("concurrent-path-differs", bad)


def run_shard(spec, rec):
    import jsonpath_rfc9535 as jp
    R = random.Random(spec["seed"])
    if spec["kind"] == "threads":
        thread_part(jp, rec, R, spec)
        return
    if spec["kind"] == "random":
        for _ in range(spec["n"]):
            cfg = G.Cfg(filters=R.random() < 0.5, regex_functions=False, max_depth=2, max_segments=4)
            cfg.indices = [0, 1, -1, -2, 2, -3, -4, -5, -7]
            gen = G.QGen(R, cfg)
            q = gen.query(root="$")
            doc = D.doc_for(R, q, maxdepth=R.choice([3, 4, 5]), maxwidth=4, feat=rec.features)
            text = G.render(q, R, feat=rec.features)
            if R.random() < 0.03:
                # long arrays: indices with several digits (100, 1005, ...) in locations and normalized paths
                n_ = R.choice([101, 130, 1100])
                doc = {"rows": [[i] for i in range(n_)], "a": [1]}
                text = R.choice(["$.rows[%d:%d]" % (n_ - 12, n_), "$.rows[::97]", "$.rows[-1,-2,100,105]", "$..[100]", "$.rows[?@[0] > %d]" % (n_ - 5), "$.rows[-%d]" % n_])
                rec.feat("case:long-array")
            rec.wal({"query": text})
            if R.random() < 0.05:
                # a query rejected half-way through a quoted name, on the same (default) environment, just before
                mon.observe(jp.compile, R.choice(["$['ab\x01cd']", '$["xy\\uD800"]', "$.a['b', 'c", "$['k1', 'k2\\q']", "$[?@.a == 'pq\\z']", "$['\\u12']"]))
                rec.feat("after-a-rejected-compile")
            try:
                with guard(60):
                    o = mon.observe(jp.find, text, doc)
                    if o[0] != "ok":
                        rec.feat("query-failed:" + type(o[1]).__name__)
                        continue
                    n, nt, v = check_nodes(jp, rec, text, doc, o[1], requery=True, max_nodes=40)
                    if v is None:
                        # find_one must return the first of those nodes (same location, same value object) or None
                        o1 = mon.observe(jp.find_one, text, doc)
                        rec.monitor("M-node")
                        if o1[0] != "ok":
                            v = ("find_one-raises", {"observed": mon.describe_outcome(o1)})
                        elif (o1[1] is None) != (len(o[1]) == 0):
                            v = ("find_one-node-differs", {"find_one": None if o1[1] is None else jsonable(list(o1[1].location)), "find": len(o[1])})
                        elif o1[1] is not None and (tuple(o1[1].location) != tuple(o[1][0].location) or o1[1].value is not o[1][0].value):
                            v = ("find_one-node-differs", {"find_one": jsonable(list(o1[1].location)), "find_first": jsonable(list(o[1][0].location))})
            except CaseTimeout:
                rec.timeout(text)
                continue
            rec.case((text, D.short(doc, 2000)), nt > 0)
            if nt:
                rec.sample({"query": text, "document": D.short(doc), "paths": [x.path() for x in o[1][:3]]}, limit=5)
            if v:
                rec.violation(v[0], dict(v[1], query=text, document=jsonable(doc)))
        return
    # member-name sweep
    if spec["mode"] == "list":
        cps = [c for c in range(spec["lo"], spec["hi"]) if not 0xD800 <= c <= 0xDFFF]
        rec.exhaustive = True
    else:
        edges = [0x7f, 0x80, 0xff, 0x100, 0x7ff, 0x800, 0xfff, 0x1000, 0x2028, 0x2029, 0xd7ff, 0xe000, 0xfeff, 0xfffd, 0xfffe, 0xffff, 0x10000, 0x1f600, 0x1ffff,
                 0x20000, 0xe0000, 0xfffff, 0x100000, 0x10fffe, 0x10ffff]
        cps = sorted(set(edges + [R.randrange(0x3000, 0xD800) for _ in range(1200)] + [R.randrange(0xE000, 0x110000) for _ in range(1800)]))
    B = 48
    routes = ["$..[*]", "$.k[-1].*", "$.k[::-1][*]", "$..*", "$.k[-1]..[0]", "$['k'][0:][*][-1]", "$.k[?@]..[?@]"]
    for i in range(0, len(cps), B):
        chunk = cps[i:i + B]
        members = {}
        for c in chunk:
            members[chr(c)] = [c]
            members["x" + chr(c) + "y"] = [c, c]
        members[""] = [0]
        doc = {"k": [members]}
        route = routes[(i // B) % len(routes)]
        rec.wal({"names": [hex(c) for c in chunk[:4]], "route": route})
        o = mon.observe(jp.find, route, doc)
        if o[0] != "ok":
            rec.violation("sweep-query-failed", {"query": route, "observed": mon.describe_outcome(o)})
            continue
        n, nt, v = check_nodes(jp, rec, route, doc, o[1], requery=True, max_nodes=10**6)
        for c in chunk:
            rec.case(("name", c), True)
        rec.feat("route:" + route, 1)
        if i == 0:
            rec.sample({"route": route, "names": [hex(c) for c in chunk[:6]], "paths": [x.path() for x in o[1][:4]]}, limit=3)
        if v:
            w = dict(v[1], query=route)
            loc = v[1].get("location") or []
            names = [k for k in loc if isinstance(k, str) and k not in ("k",)]
            w["name_codepoints"] = [[hex(ord(ch)) for ch in k] for k in names][:3]
            rec.violation(v[0], w)
    rec.feat("names-swept", len(cps))


def finish(m, tier):
    m["extra"]["exhaustive_scope"] = ("member-name sweep over " + ("U+0000-U+2FFF (plus samples)" if tier == "quick" else "every Unicode scalar value")
                                      + "; random queries are sampled")
    sw = m["features"].get("thread-switches-inside-package", 0)
    m["extra"]["thread_switches_inside_package"] = sw
    if m["features"].get("thread-runs", 0) and sw == 0:
        return ["the concurrent part observed no thread switch inside package code"]
    return []


def replay(case, rec):
    import jsonpath_rfc9535 as jp
    rec.case("r1", True)
    rec.case("r2", True)
    if "document" not in case:
        loc = case.get("location") or []
        names = [k for k in loc if isinstance(k, str) and k != "k"]
        members = {n_: [1] for n_ in names} or {"a": [1]}
        case = dict(case, document={"k": [members]})
    o = mon.observe(jp.find, case["query"], case["document"])
    if o[0] == "ok":
        n, nt, v = check_nodes(jp, rec, case["query"], case["document"], o[1])
        if v:
            rec.violation(v[0], dict(v[1], query=case["query"]))
