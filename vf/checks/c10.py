"""C10 — length/count/value and the function-call type conversions follow RFC 9535."""
from __future__ import annotations

import itertools
import random

from ..gen import queries as G
from ..gen import docs as D
from ..oracle import sem
from ..oracle.sem import V, L, N, NOTHING
from .. import mon
from ..worker import guard, CaseTimeout, jsonable

PROPERTY = "C10"
RULE = ("(i) built-ins: filters built from length()/count()/value() with arguments of every well-typed form (literal, '@' on container and "
        "scalar children, '$', singular and non-singular queries, nested calls) compared with literals/queries, on children of every JSON "
        "kind; selection must equal the reference semantics. (ii) probe functions: user-registered functions for signatures over "
        "{Value,Logical,Nodes}^n -> type (n<=3) record the exact argument objects of every call; each real call must be one the model "
        "predicts for that evaluation: ValueType = the literal's value (type-exact), the selected node's very value object, or the "
        "NOTHING singleton; NodesType = a nodelist whose (location, value identity) sequence equals the model's; LogicalType = exactly "
        "True/False of type bool. (iii) the child is selected iff the scripted constant result, interpreted per the declared result type, "
        "makes the filter true. Non-trivial: a conversion happened (query->value, query->logical, nodes-call->logical, empty->nothing) or a "
        "built-in received a non-container; distinct by (registry, AST, child). ledger = (declared type x argument shape x child kind)."
        " One case in eight evaluates one compiled query lazily over two different documents advanced alternately; both selections must equal the model's.")
ASSUMPTIONS = ["reference semantics vf/oracle/sem.py (function-call conversions of RFC 9535 2.4.1-2.4.2)",
               "evaluation order and short-circuiting are not specified: real calls must be a subset of the calls the model predicts (which evaluates every operand)"]
DECIDING_MONITORS = ["M-find", "M-probe-call"]

TYPES = (V, L, N)
KIDS = [None, True, False, 0, 1, -1, 1.5, 0.0, "", "a", "abc", "é\U0001F600", [], [1], [1, 2, 3], [[1], [2]], {}, {"a": 1}, {"a": [1, 2], "b": "xy"},
        {"a": {"a": None}}, {"a": "", "b": 0, "c": False}, {"a": [], "b": {}}, "\U0001F600\U0001F600", {"a": "\U00010000x"}]

V_RESULTS = [7, "s", None, True, False, 0, 1.5, NOTHING, "abc"]
N_RESULTS = [(), ((("p",), "one"),), ((("p", 0), 1), (("p", 1), 2))]


def argsig_real(jp, t, x):
    if t == V:
        if x is jp.NOTHING:
            return ("V", "NOTHING")
        if isinstance(x, (list, dict)):
            return ("V", "obj", id(x))
        return _scalar_sig(x)
    if t == L:
        return ("L", type(x).__name__, repr(x))
    try:
        return ("N", tuple((tuple(n.location), id(n.value)) for n in x))
    except Exception:  # noqa: BLE001
        return ("N", "not-a-nodelist", type(x).__name__)


def argsig_model(t, x):
    if t == V:
        if x is NOTHING:
            return ("V", "NOTHING")
        if isinstance(x, (list, dict)):
            return ("V", "obj", id(x))
        return _scalar_sig(x)
    if t == L:
        return ("L", type(x).__name__, repr(x))
    return ("N", tuple((tuple(l), id(v)) for l, v in x))


def _scalar_sig(x):
    # JSON numbers have no int/float distinction (10.000 and 10 are the same literal value); everything else is type-exact
    if isinstance(x, (int, float)) and not isinstance(x, bool):
        if x == int(x) and abs(x) < 2**63:
            return ("V", "number", repr(int(x)))
        return ("V", "number", repr(float(x)))
    return ("V", type(x).__name__, repr(x))


class Script:
    """One registry: signatures + scripted constant results, with a model-side and a real-side implementation."""

    def __init__(self, R, nfuncs=6, sigs=None):
        self.sigs = {}
        self.results = {}
        all_sigs = [(p, r) for n in range(0, 4) for p in itertools.product(TYPES, repeat=n) for r in TYPES]
        chosen = sigs or [R.choice(all_sigs) for _ in range(nfuncs)]
        for i, (params, ret) in enumerate(chosen):
            name = "p%d" % i
            self.sigs[name] = (tuple(params), ret)
            if ret == V:
                self.results[name] = R.choice(V_RESULTS)
            elif ret == L:
                self.results[name] = R.choice([True, False])
            else:
                self.results[name] = R.choice(N_RESULTS)
        self.predicted = set()
        self.nvalues = {}

    def model_registry(self):
        reg = {}
        for name, (params, ret) in self.sigs.items():
            reg[name] = (params, ret, self._model_impl(name, params, ret))
        return reg

    def _model_impl(self, name, params, ret):
        def impl(*args):
            self.predicted.add((name, tuple(argsig_model(t, a) for t, a in zip(params, args))))
            r = self.results[name]
            if ret == N:
                return [(loc, self._nval(name, i, v)) for i, (loc, v) in enumerate(r)]
            return r
        return impl

    def _nval(self, name, i, v):
        # stable value objects so that identities agree between model and real side
        return self.nvalues.setdefault((name, i), [v])

    def real_registry(self, jp, calls):
        from jsonpath_rfc9535 import JSONPathNode, JSONPathNodeList
        reg = {}
        for name, (params, ret) in self.sigs.items():
            def impl(*args, name=name, params=params, ret=ret):
                calls.append((name, tuple(argsig_real(jp, t, a) for t, a in zip(params, args)), len(args)))
                r = self.results[name]
                if ret == N:
                    return JSONPathNodeList(JSONPathNode(value=self._nval(name, i, v), location=loc, root=None) for i, (loc, v) in enumerate(r))
                if r is NOTHING:
                    return jp.NOTHING
                return r
            reg[name] = (params, ret, impl)
        return reg


def arg_shapes(q, sigs, out, childkind):
    """Ledger: (declared type, argument shape, child kind)."""
    def shape(a):
        k = a[0]
        if k == "lit":
            return "literal"
        if k == "q":
            base = ("bare-" if not a[2] else "") + ("rel" if a[1] == "@" else "abs")
            return base + ("-singular" if sem.is_singular(a) else "-nonsingular")
        if k == "call":
            return "call->" + sigs[a[1]][1]
        return "logical-" + k

    def ex(e):
        k = e[0]
        if k in ("or", "and"):
            for x in e[1]:
                ex(x)
        elif k in ("not", "paren", "test"):
            ex(e[1])
        elif k == "cmp":
            ex(e[2])
            ex(e[3])
        elif k == "call":
            params = sigs[e[1]][0]
            for t, a in zip(params, e[2]):
                key = "%s|%s|%s" % (t, shape(a), childkind)
                out[key] = out.get(key, 0) + 1
                ex(a)
        elif k == "q":
            for _, sels in e[2]:
                for s in sels:
                    if s[0] == "filter":
                        ex(s[1])
    for _, sels in q[2]:
        for s in sels:
            if s[0] == "filter":
                ex(s[1])


def conversions(q, sigs):
    """Does the expression contain a type conversion at a call?"""
    found = []

    def ex(e):
        k = e[0]
        if k in ("or", "and"):
            for x in e[1]:
                ex(x)
        elif k in ("not", "paren"):
            ex(e[1])
        elif k == "test":
            if e[1][0] == "call":
                if sigs[e[1][1]][1] == N:
                    found.append("nodes-call->logical")
                ex(e[1])
        elif k == "cmp":
            for x in (e[2], e[3]):
                if x[0] == "call":
                    ex(x)
        elif k == "call":
            for t, a in zip(sigs[e[1]][0], e[2]):
                if a[0] == "q" and t == V:
                    found.append("query->value")
                if a[0] == "q" and t == L:
                    found.append("query->logical")
                if a[0] == "call" and t == L and sigs[a[1]][1] == N:
                    found.append("nodes-call->logical")
                if a[0] == "call":
                    ex(a)
                elif a[0] not in ("lit", "q"):
                    ex(a)
    for _, sels in q[2]:
        for s in sels:
            if s[0] == "filter":
                ex(s[1])
    return found


def plan(tier, seed, nproc, scale):
    shards = nproc if tier == "quick" else nproc * 4
    n = int((48000 if tier == "quick" else 900000) * scale)
    return [{"kind": "random", "seed": "%d/%d" % (seed, i), "n": n // shards, "shard": i, "shards": shards} for i in range(shards)]


def run_shard(spec, rec):
    import jsonpath_rfc9535 as jp
    R = random.Random(spec["seed"])
    ledger = {}
    scripts = []
    all_sigs = [(p, r) for n in range(0, 4) for p in itertools.product(TYPES, repeat=n) for r in TYPES]
    k = (len(all_sigs) + spec["shards"] - 1) // spec["shards"]
    mine = all_sigs[spec["shard"] * k:(spec["shard"] + 1) * k]
    from jsonpath_rfc9535 import function_extensions as _fe
    for v in range(4):
        # script 3: functions with the standard functions' signatures, written as subclasses of the standard classes
        sc = Script(R, sigs=(mine if v == 0 else [((N,), V), ((N,), V), ((V,), V), ((V, V), L), ((V, V), L), ((N,), V)] if v == 3 else None), nfuncs=8)
        calls = []
        env, probes = mon.make_env(sc.real_registry(jp, calls), bases=({"p0": _fe.Count, "p1": _fe.Value, "p2": _fe.Length, "p3": _fe.Match, "p4": _fe.Search} if v == 3 else None))
        model = sem.Model(sc.model_registry())
        sigs = dict(sem.BUILTIN_SIGS)
        sigs.update(sc.sigs)
        for name, (p, r) in sc.sigs.items():
            rec.feat("signature:(%s)->%s" % (",".join(p), r))
        scripts.append((sc, calls, env, model, sigs))
    for i in range(spec["n"]):
        builtin_only = R.random() < 0.4
        sc, calls, env, model, sigs = R.choice(scripts)
        reg = {k_: v_ for k_, v_ in sigs.items() if k_ in ("length", "count", "value")} if builtin_only else {k_: v_ for k_, v_ in sigs.items() if k_ not in ("match", "search")}
        cfg = G.Cfg(filters=True, registry=reg, max_depth=2, max_segments=2)
        cfg.names = ["a", "b", "c", "a", "b"]
        gen = G.QGen(R, cfg)
        # an expression that certainly contains a call
        fs = sorted(reg)
        name = R.choice(fs)
        call = gen.call(name, 1)
        ret = reg[name][1]
        if ret == V:
            other = gen.comparable(2) if R.random() < 0.6 else ("lit", R.choice([0, 1, 2, 3, 7, "s", None, True, "abc", 1.5]))
            e = ("cmp", R.choice(["==", "!=", "<", "<=", ">", ">="]), call, other) if R.random() < 0.5 else ("cmp", R.choice(["==", "!=", "<", ">="]), other, call)
        else:
            e = ("test", call)
        r = R.random()
        if r < 0.15:
            e = ("not", e if e[0] == "test" else ("paren", e))
        elif r < 0.3:
            other_e = gen.expr(2)
            if other_e[0] in ("and", "or"):
                other_e = ("paren", other_e)
            e = (R.choice(["and", "or"]), (e, other_e))
        q = ("q", "$", (("child", (("filter", e),)),))
        child = D.deep_copy(R.choice(KIDS))
        doc = [child]
        if R.random() < 0.5:
            # several children: results must be computed per child (no reuse across children)
            doc += [D.deep_copy(R.choice(KIDS)) for _ in range(R.randint(1, 3))]
            if R.random() < 0.3:
                doc = {"k%d" % j: c for j, c in enumerate(doc)}
        text = G.render(q, R, feat=rec.features)
        sc.predicted.clear()
        del calls[:]
        rec.wal({"query": text, "child": D.short(child)})
        interleaved = R.random() < 0.12
        try:
            with guard(30):
                want = mon.want_sig(model.find(q, doc))
                if interleaved:
                    # two lazy evaluations of ONE compiled query over two different documents, advanced alternately: '$' and '@'
                    # inside the function arguments of each must keep denoting that evaluation's own document
                    other_doc = [D.deep_copy(R.choice(KIDS)) for _ in range(R.randint(1, 3))] + [D.deep_copy(child)]
                    want_other = mon.want_sig(model.find(q, other_doc))

                    def alternate():
                        c = env.compile(text)
                        it_a, it_b = iter(c.finditer(doc)), iter(c.finditer(other_doc))
                        out_a, out_b = [], []
                        live = [(it_a, out_a), (it_b, out_b)]
                        while live:
                            for pair in list(live):
                                n_ = next(pair[0], None)
                                if n_ is None:
                                    live.remove(pair)
                                else:
                                    pair[1].append(n_)
                        return out_a, out_b
                    o = mon.observe(alternate)
                    rec.feat("evaluated-interleaved")
                    if o[0] == "ok":
                        got_other = mon.sig(o[1][1])
                        o = ("ok", o[1][0])
                        if got_other != want_other:
                            rec.violation("selection:interleaved-evaluations", {"query": text, "document": jsonable(other_doc), "other_document": jsonable(doc),
                                                                                "expected": mon.locs_only(want_other), "observed": mon.locs_only(got_other)})
                    del calls[:]
                else:
                    o = mon.observe(env.find, text, doc)
        except CaseTimeout:
            rec.timeout(text)
            continue
        rec.monitor("M-find")
        ck = sem.kind(child)
        arg_shapes(q, sigs, ledger, ck)
        conv = conversions(q, sigs)
        scalar_builtin = builtin_only and not isinstance(child, (list, dict))
        rec.case((sorted(sc.sigs.items()), repr(sc.results), q, repr(child)), bool(conv) or scalar_builtin)
        if conv:
            rec.sample({"query": text, "child": D.short(child), "conversions": sorted(set(conv)), "probe_calls": len(calls)}, limit=8)
        wit = {"query": text, "document": jsonable(doc), "signatures": {k_: "(%s)->%s" % (",".join(p), r_) for k_, (p, r_) in sc.sigs.items() if k_ + "(" in text},
               "scripted_results": {k_: repr(v_) for k_, v_ in sc.results.items() if k_ + "(" in text}}
        if o[0] != "ok":
            rec.violation("exception:" + type(o[1]).__name__, dict(wit, observed=mon.describe_outcome(o)))
            continue
        got = mon.sig(o[1])
        if got != want and interleaved:
            rec.violation("selection:interleaved-evaluations", dict(wit, expected=mon.locs_only(want), observed=mon.locs_only(got)))
        elif got != want:
            rec.violation("selection:" + ("builtin" if builtin_only else "probe-result-%s" % ret), dict(wit, expected=mon.locs_only(want), observed=mon.locs_only(got)))
        for (name_, sig_, nargs) in calls:
            rec.monitor("M-probe-call")
            if (name_, sig_) not in sc.predicted:
                params = sc.sigs[name_][0]
                bad_t = next((t for t, a in zip(params, sig_) if not any(p[0] == name_ and a in p[1] for p in sc.predicted)), "?")
                rec.violation("probe-argument:%s" % bad_t, dict(wit, function=name_, observed_arguments=jsonable(sig_),
                                                                predicted_calls=jsonable(sorted((p for p in sc.predicted if p[0] == name_), key=repr))[:4]))
                break
    if spec["shard"] == 0:
        hook_battery(jp, rec)
    rec.extra["ledger"] = ledger


def hook_battery(jp, rec):
    """The documented compile-time hook validate_function_extension_signature RETURNS the argument list the call is
    built from: an environment that reorders or pads the arguments there sees its functions called accordingly."""
    from jsonpath_rfc9535 import JSONPathEnvironment
    seen = []

    class HookEnv(JSONPathEnvironment):
        def validate_function_extension_signature(self, token, args):
            if token.value == "pad2" and len(args) == 1:
                args = list(args) + [args[0]]
            args = super().validate_function_extension_signature(token, args)
            if token.value == "rev2":
                return list(reversed(args))
            return args

    env = HookEnv()
    for nm in ("rev2", "pad2", "plain2"):
        env.function_extensions[nm] = mon.Probe(nm, (V, V), V, lambda a, b, nm=nm: (seen.append((nm, a, b)), 1)[1])
    docs = [[{"a": 1, "b": 2}, {"a": "x", "b": [3]}, {"a": None}], {"k": {"a": 0, "b": False}}]
    for doc in docs:
        kids = list(doc.values()) if isinstance(doc, dict) else doc
        for text, want in (("$[?rev2(@.a, @.b) == 1]", lambda c: ("rev2", c.get("b", jp.NOTHING), c.get("a", jp.NOTHING))),
                           ("$[?plain2(@.a, @.b) == 1]", lambda c: ("plain2", c.get("a", jp.NOTHING), c.get("b", jp.NOTHING))),
                           ("$[?pad2(@.a) == 1]", lambda c: ("pad2", c.get("a", jp.NOTHING), c.get("a", jp.NOTHING))),
                           ("$[?rev2(@.a, 7) == 1]", lambda c: ("rev2", 7, c.get("a", jp.NOTHING)))):
            del seen[:]
            o = mon.observe(env.find, text, doc)
            rec.monitor("M-find")
            rec.monitor("M-probe-call")
            rec.case(("hook", text, repr(doc)), True)
            rec.feat("hook-battery")
            exp = [want(c) for c in kids]
            same = o[0] == "ok" and len(seen) == len(exp) and all(a[0] == b[0] and a[1] is b[1] or a[1] == b[1] and type(a[1]) is type(b[1]) for a, b in zip(seen, exp)) \
                and all(a[2] is b[2] or (a[2] == b[2] and type(a[2]) is type(b[2])) for a, b in zip(seen, exp))
            if not same:
                rec.violation("hook-returned-arguments-not-used", {"query": text, "document": jsonable(doc), "observed_calls": jsonable([list(x) for x in seen]) if o[0] == "ok" else mon.describe_outcome(o),
                                                                  "expected_calls": jsonable([list(x) for x in exp])})


def finish(m, tier):
    cells = m["extra"].get("ledger", {})
    shapes = {}
    for k in cells:
        t, shape, kind_ = k.split("|")
        shapes.setdefault((t, shape), set()).add(kind_)
    m["extra"]["ledger_cells"] = len(cells)
    m["extra"]["ledger_type_shape_pairs"] = sorted("%s|%s" % k for k in shapes)
    need = [(V, "literal"), (V, "rel-singular"), (V, "bare-rel-singular"), (V, "abs-singular"), (V, "call->V"), (N, "rel-nonsingular"), (N, "rel-singular"), (N, "bare-rel-singular"),
            (N, "call->N"), (L, "rel-singular"), (L, "rel-nonsingular"), (L, "call->L"), (L, "call->N"), (L, "logical-cmp")]
    missing = ["%s|%s" % k for k in need if k not in shapes]
    m["extra"]["ledger_missing"] = missing
    return ["ledger (type x shape) pairs never observed: %s" % missing] if missing else []


def replay(case, rec):
    rec.case("r1", True)
    rec.case("r2", True)
    rec.note("C10 witnesses depend on the scripted registry of the shard; re-run the check with the same seed to reproduce")
    import jsonpath_rfc9535 as jp
    if not case.get("signatures"):
        o = mon.observe(jp.find, case["query"], case["document"])
        rec.monitor("M-find")
        want = mon.want_sig(sem.Model().find(__import__("vf.oracle.abnf", fromlist=["x"]).get(True).ast(case["query"]), case["document"]))
        if o[0] != "ok" or mon.sig(o[1]) != want:
            rec.violation("selection:builtin", case)
