"""C15 — all entry points agree: find, finditer, find_one, compile().apply, module-level."""
from __future__ import annotations

import random

from ..gen import queries as G
from ..gen import docs as D
from .. import mon
from ..worker import guard, CaseTimeout, jsonable
from . import c04

PROPERTY = "C15"
RULE = ("for each (query, value) the 14 public call paths — module find/finditer/find_one, environment find/finditer/find_one, and "
        "compile() via module and via environment x find/apply/finditer/find_one — are driven on the same inputs; iterators are drained "
        "element by element so that an evaluation-time error is observed after the elements that precede it. Oracle: all list-valued paths "
        "give the same (location, value identity) sequence, every find_one is its first element or None, invalid queries raise the same "
        "error class on every path (each invalid variant is tried right after its valid neighbour on the same environments), and "
        "evaluation-time errors have the same class and the same preceding elements. Queries: generated valid (filters, functions, "
        "singular queries landing on strings/scalars), rule-violation variants, ill-typed; values: planted documents and documents nested "
        "deeper than the recursion limit in a late branch (lazy failure). Non-trivial: non-empty result, or an error; distinct by "
        "(query, document)."
        " On each compiled query find_one is called first (abandoning its iterator), the list-valued paths are called again afterwards, and a finditer() suspended across an application of the same compiled query to another document must still agree (18 observations per case).")
ASSUMPTIONS = ["find_one of a sequence that fails later may legitimately return the first element (that is its definition)"]
DECIDING_MONITORS = ["M-paths"]


def drain(it):
    """Elements yielded before completion or error."""
    out = []
    try:
        for n in it:
            out.append((tuple(n.location), id(n.value)))
    except Exception as e:  # noqa: BLE001
        return out, type(e).__name__
    return out, None


FOREIGN = []


def call_list(fn):
    try:
        r = fn()
    except Exception as e:  # noqa: BLE001
        return None, type(e).__name__
    out = drain(r)
    if isinstance(r, list) and FOREIGN:
        # the caller owns the list it was given: changing it afterwards (here: appending a node of another result, then
        # reversing) must not show up in any later result
        try:
            r.append(FOREIGN[0])
            r.reverse()
        except Exception:  # noqa: BLE001
            pass
    return out


def call_one(fn):
    try:
        n = fn()
    except Exception as e:  # noqa: BLE001
        return "error", type(e).__name__
    if n is None:
        return "none", None
    return "node", (tuple(n.location), id(n.value))


def all_paths(jp, env, text, doc, other=None):
    res = {}
    if not FOREIGN:
        FOREIGN.append(jp.find("$[0]", [["a node of another result"]])[0])
    res["module.find"] = call_list(lambda: jp.find(text, doc))
    res["module.finditer"] = call_list(lambda: jp.finditer(text, doc))
    res["env.find"] = call_list(lambda: env.find(text, doc))
    res["env.finditer"] = call_list(lambda: env.finditer(text, doc))
    # an environment (and a compiled query) that nothing else refers to any more while the iterator is drained
    import gc
    from jsonpath_rfc9535 import JSONPathEnvironment as _Env

    def temp_env_iter():
        it = _Env().finditer(text, doc)
        gc.collect()
        return it

    def temp_compiled_iter():
        it = _Env().compile(text).finditer(doc)
        gc.collect()
        return it
    res["temporary-env.finditer"] = call_list(temp_env_iter)
    res["temporary-env.compile.finditer"] = call_list(temp_compiled_iter)
    ones = {}
    ones["module.find_one"] = call_one(lambda: jp.find_one(text, doc))
    ones["env.find_one"] = call_one(lambda: env.find_one(text, doc))
    for label, comp in (("module.compile", jp.compile), ("env.compile", env.compile)):
        try:
            c = comp(text)
        except Exception as e:  # noqa: BLE001
            for m in ("find", "apply", "finditer"):
                res["%s.%s" % (label, m)] = (None, type(e).__name__)
            ones["%s.find_one" % label] = ("error", type(e).__name__)
            continue
        # find_one first: it abandons its iterator half-way, which must not affect the calls that follow on the same compiled query
        ones["%s.find_one" % label] = call_one(lambda: c.find_one(doc))
        res["%s.find" % label] = call_list(lambda: c.find(doc))
        res["%s.apply" % label] = call_list(lambda: c.apply(doc))
        res["%s.finditer" % label] = call_list(lambda: c.finditer(doc))
        ones["%s.find_one(again)" % label] = call_one(lambda: c.find_one(doc))
        res["%s.find(again)" % label] = call_list(lambda: c.find(doc))
        if other is not None:
            # a suspended finditer() resumed after the same compiled query was applied to another document
            def interleaved():
                it = iter(c.finditer(doc))
                try:
                    yield next(it)
                except StopIteration:
                    return
                try:
                    c.find_one(other)
                    c.find(other)
                except Exception:  # noqa: BLE001
                    pass
                yield from it
            res["%s.finditer(suspended across another document)" % label] = call_list(interleaved)
    return res, ones


def judge(res, ones):
    """Returns (violation key, detail) or None."""
    # reference: the drained finditer of the compiled query
    ref = res["module.compile.finditer"]
    ref_elems, ref_err = ref
    for k, (elems, err) in res.items():
        if ref_elems is None:
            # invalid query: all paths must raise the same class at call time
            if elems is not None or err != ref_err:
                return "invalid-query-disagreement", {"path": k, "got": [elems is not None and len(elems), err], "reference": ["raises", ref_err]}
            continue
        lazy = "finditer" in k
        if ref_err is None:
            if err is not None or elems != ref_elems:
                return "result-disagreement", {"path": k, "got": [len(elems) if elems is not None else None, err], "reference": [len(ref_elems), None]}
        else:
            # evaluation-time error: lazy paths yield the same prefix then the same error; eager paths raise the same error
            if err != ref_err:
                return "evaluation-error-disagreement", {"path": k, "got": err, "reference": ref_err}
            if lazy and elems != ref_elems:
                return "evaluation-error-prefix-disagreement", {"path": k, "got": len(elems or []), "reference": len(ref_elems)}
    for k, (kind, val) in ones.items():
        if ref_elems is None:
            if kind != "error" or val != ref_err:
                return "invalid-query-disagreement", {"path": k, "got": [kind, val], "reference": ["raises", ref_err]}
        elif ref_elems:
            if kind != "node" or val != ref_elems[0]:
                return "find_one-disagreement", {"path": k, "got": [kind, jsonable(val)], "reference_first": jsonable(ref_elems[0])}
        elif ref_err is None:
            if kind != "none":
                return "find_one-disagreement", {"path": k, "got": [kind, jsonable(val)], "reference_first": None}
        else:
            if kind != "error" or val != ref_err:
                return "find_one-disagreement", {"path": k, "got": [kind, jsonable(val)], "reference": ["raises", ref_err]}
    return None


def lazy_fail_doc(R):
    deep = cur = []
    for _ in range(R.choice([101, 105, 130])):
        nxt = []
        cur.append(nxt)
        cur = nxt
    shallow = [{"a": i, "b": [i, {"a": "x"}]} for i in range(R.randint(1, 4))]
    return R.choice([shallow + [deep], {"first": shallow, "late": deep}, [deep] + shallow, {"a": shallow, "b": {"a": deep}}])


def singular_case(R):
    names = ["a", "b", "c"]
    segs = []
    path = []
    for _ in range(R.randint(1, 3)):
        if R.random() < 0.5:
            k = R.choice(names)
        else:
            k = R.choice([0, 1, -1, 2, -4, -5, -7, -2])
        path.append(k)
        segs.append(("child", (("name", k) if isinstance(k, str) else ("idx", k),)))
    q = ("q", "$", tuple(segs))
    # document that follows the path but ends (somewhere) in a string / scalar / wrong container kind
    stop = R.randint(0, len(path))
    leaf = R.choice(["hello", "", "ab", 5, None, True, {"a": 1, "0": 2}, [1, 2, 3], {"0": "zero", "-1": "m"}])
    v = leaf
    for i in reversed(range(stop)):
        k = path[i]
        if isinstance(k, str):
            v = {k: v, "z": 1}
        else:
            arr = [R.choice(["x", 0, None]) for _ in range(3)]
            if -3 <= k < 3:
                arr[k] = v       # indices beyond the array (e.g. -5 on 3 elements) select nothing: leave the array as it is
            v = arr
    return q, v


def plan(tier, seed, nproc, scale):
    shards = nproc if tier == "quick" else nproc * 4
    n = int((20000 if tier == "quick" else 500000) * scale)
    return [{"kind": "random", "seed": "%d/%d" % (seed, i), "n": n // shards} for i in range(shards)]


def run_shard(spec, rec):
    import jsonpath_rfc9535 as jp
    from jsonpath_rfc9535 import JSONPathEnvironment
    R = random.Random(spec["seed"])
    env = JSONPathEnvironment()

    class PolicyEnv(JSONPathEnvironment):
        """Documented customisation: compile() is the one place through which every entry point obtains its query."""

        def compile(self, query):  # noqa: A003
            if query.startswith("~"):
                query = query[1:]           # relaxed syntax: an optional marker in front of the root identifier
            elif "policy" in query:
                from jsonpath_rfc9535 import JSONPathSyntaxError
                from jsonpath_rfc9535.tokens import Token, TokenType
                raise JSONPathSyntaxError("refused by policy", token=Token(TokenType.ROOT, "$", 0, query))
            return super().compile(query)
    policy_env = PolicyEnv()
    n = 0
    # battery: the query argument is itself a primitive (incl. strings that look like JSON text: no entry point may decode them),
    # and queries so long that evaluation runs out of interpreter stack (every entry point must fail the same way; far from
    # the boundary on both sides so that the few frames by which the entry points differ cannot matter)
    battery = [(t, d) for d in ["[1, 2]", "{\"a\": 1}", "[\"[1]\"]", "{}", "[]", " [1]", "\"a\"", "hello", "", "1", "null", "true", 0, 1.5, None, True, False]
               for t in ["$", "$[0]", "$.a", "$[*]", "$..*", "$[?@]", "$['a']", "$[-1]", "$[?@ == 1]", "$[0][0]"]]
    battery += [("$" + seg * k, d) for seg in ("[0]", ".a", "[*]", "['a','a']") for k in (200, 2500) for d in ([[[1]]], {"a": {"a": {"a": 1}}})]
    if str(spec.get("seed", "")).endswith("/0"):
        for t, doc in battery:
            rec.wal({"query": t[:60], "document": D.short(doc, 100)})
            try:
                with guard(60):
                    res, ones = all_paths(jp, env, t, doc)
            except CaseTimeout:
                rec.timeout(t[:60])
                continue
            rec.monitor("M-paths", len(res) + len(ones))
            rec.case(("battery", t, repr(doc)), True)
            rec.feat("case:battery")
            v = judge(res, ones)
            if v:
                rec.violation(v[0], dict(v[1], query=t if len(t) < 200 else t[:40] + "... (%d characters)" % len(t), document=jsonable(doc), document_kind=type(doc).__name__))
    while n < spec["n"]:
        r = R.random()
        cfg = G.Cfg(filters=True, regex_functions=True, max_depth=2, max_segments=3)
        cfg.regex_pool = cfg.regex_pool + G.HOSTILE_PATTERNS   # valid and invalid patterns in any order
        gen = G.QGen(R, cfg)
        if r < 0.2:
            q, doc = singular_case(R)
            rec.feat("case:singular-on-scalars")
        elif r < 0.3:
            q = ("q", "$", (("desc", (R.choice([("wild",), ("name", "a"), ("idx", 0), ("filter", ("test", ("q", "@", (("child", (("name", "a"),)),))))]),)),))
            doc = lazy_fail_doc(R)
            rec.feat("case:lazy-failure")
        else:
            q = gen.query(root="$")
            doc = D.doc_for(R, q, maxdepth=4, maxwidth=4, feat=rec.features, shapes=0.03)
            rec.feat("case:generated")
        text = G.render(q, R, ws=R.choice(["none", "sparse"]), feat=rec.features)
        texts = [text]
        if R.random() < 0.5:
            texts += [t for _, t in R.sample(c04.violations_of(R, text), k=min(3, len(c04.violations_of(R, text))))] if c04.violations_of(R, text) else []
            texts += [text + " ", " " + text, text + "\n"][:R.randint(0, 3)]
        if R.random() < 0.1:
            texts.append(text.replace("length(", "nope(").replace("count(", "undefined(") if "(" in text else "$[?nope(@)]")
        for t in texts:
            if any(0xD800 <= ord(c) <= 0xDFFF for c in t):
                continue
            rec.wal({"query": t, "document": D.short(doc, 300)})
            try:
                with guard(60):
                    use_policy = R.random() < 0.15
                    if use_policy:
                        # only the environment's own entry points are comparable here (the module level knows nothing of the subclass)
                        t2 = "~" + t if R.random() < 0.7 else t.replace("a", "policy", 1) if "a" in t else "~" + t
                        res, ones = all_paths(policy_env, policy_env, t2, doc)
                        res = {k.replace("module.", "policy-env(1)."): v for k, v in res.items() if not k.startswith("temporary-env")}
                        res["module.compile.finditer"] = res["policy-env(1).compile.finditer"]
                        ones = {k.replace("module.", "policy-env(1)."): v for k, v in ones.items()}
                        rec.feat("case:environment-subclass-overriding-compile")
                        t = t2
                    else:
                        res, ones = all_paths(jp, env, t, doc, other=D.doc_for(R, q, maxdepth=3, maxwidth=3) if R.random() < 0.5 else None)
            except CaseTimeout:
                rec.timeout(t)
                continue
            rec.monitor("M-paths", len(res) + len(ones))
            n += 1
            ref = res["module.compile.finditer"]
            rec.case((t, D.short(doc, 2000)), bool(ref[0]) or ref[1] is not None)
            rec.feat("outcome:%s" % ("invalid-query" if ref[0] is None else "evaluation-error" if ref[1] else "ok"))
            if ref[0] or ref[1]:
                rec.sample({"query": t, "document": D.short(doc), "paths": len(res) + len(ones), "result": len(ref[0]) if ref[0] is not None else ref[1], "error": ref[1]}, limit=6)
            v = judge(res, ones)
            if v:
                rec.violation(v[0], dict(v[1], query=t, document=jsonable(doc) if len(repr(doc)) < 3000 else {"<elided>": "large document"}))
            elif ref[0] is not None and ref[1] is None and isinstance(doc, (list, dict)) and R.random() < 0.3:
                # the document is updated in place: a query compiled before the update and the entry points that compile
                # afresh must agree on the new content
                try:
                    c_old = env.compile(t)
                    c_old.find(doc)
                    list(c_old.finditer(doc))
                    if isinstance(doc, list):
                        doc.append(D.deep_copy(R.choice([1, "a", {"a": 1, "b": [1]}, [1, 2], None])))
                        if doc and R.random() < 0.5:
                            doc[0] = D.deep_copy(R.choice([0, "x", {"a": 2}, [3]]))
                    else:
                        doc[R.choice(list(doc) + ["a", "b", "limit"])] = D.deep_copy(R.choice([1, "a", {"a": 1}, [1, 2], None, 7]))
                    after = {"compiled-before-update.find": call_list(lambda: c_old.find(doc)), "compiled-before-update.finditer": call_list(lambda: c_old.finditer(doc)),
                             "module.compile.finditer": call_list(lambda: jp.compile(t).finditer(doc)), "module.find": call_list(lambda: jp.find(t, doc))}
                    one_after = {"compiled-before-update.find_one": call_one(lambda: c_old.find_one(doc))}
                    rec.monitor("M-paths", 5)
                    v2 = judge(after, one_after)
                    if v2:
                        rec.violation("after-in-place-update:" + v2[0], dict(v2[1], query=t, document_after_update=jsonable(doc) if len(repr(doc)) < 3000 else "<large document>"))
                except Exception:  # noqa: BLE001
                    pass


def replay(case, rec):
    import jsonpath_rfc9535 as jp
    from jsonpath_rfc9535 import JSONPathEnvironment
    rec.case("r1", True)
    rec.case("r2", True)
    if isinstance(case.get("document"), dict) and "<elided>" in case["document"]:
        return
    res, ones = all_paths(jp, JSONPathEnvironment(), case["query"], case["document"])
    rec.monitor("M-paths", len(res) + len(ones))
    v = judge(res, ones)
    if v:
        rec.violation(v[0], dict(v[1], query=case["query"]))
