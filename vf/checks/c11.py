"""C11 — match() and search() implement I-Regexp whole-string / substring matching."""
from __future__ import annotations

import random

from ..oracle import iregexp as IR
from ..gen import queries as G
from .. import mon
from ..worker import guard, CaseTimeout, jsonable

PROPERTY = "C11"
RULE = ("pattern ASTs drawn from the RFC 9485 grammar (literals, escaped metacharacters, '.', classes with ranges / negation / leading and "
        "trailing '-' / category escapes \\p \\P, groups, alternation incl. empty branches, * + ? {n} {n,} {n,m}; <=12 nodes; class contents "
        "include the doubled punctuators || && ~~ that are set operators in other dialects) rendered to text; subjects: strings sampled from "
        "the pattern's language, single-edit mutants of those, and random strings over {a b c A 0 1 - | & ~ [ ] ^ . ( ) LF CR U+2028 e-acute "
        "U+1F600 ...}, length <= 10. For each (pattern, subject): find('$[?match(@.s, @.p)]', [{s, p}]), the same with search, and the "
        "literal-pattern spelling; oracle = back-tracking-free matcher over the AST (match: whole string in the language; search: some "
        "substring; '.' = any character except LF and CR). Clear-cut invalid patterns and non-string arguments of every kind in either "
        "position must give false without raising. Gray zones ('^'/'$', '{n,m}' with n>m, reversed ranges, '[^]', unassigned code points) "
        "are not generated. Non-trivial: pattern with >=2 constructs; distinct by (pattern, subject, function).")
ASSUMPTIONS = ["RFC 9485 matcher in vf/oracle/iregexp.py; Unicode general categories from unicodedata on an alphabet whose categories are stable",
               "regex and iregexp_check are third-party dependencies of the package: a defect there that surfaces through match()/search() is reported with that attribution"]
DECIDING_MONITORS = ["M-find"]

ALPHA = list("abcAB01-|&~^$.[](){}*+?\\,") + ["\n", "\r", " ", "é", "\U0001F600", " ", "_", "Z", "\u2028", "\u2029", "\x0b", "\x0c", "\x85", "\x1c", "\x1e"]
NORMAL = [c for c in ALPHA if c not in "()*+.?[\\]{|}" and c not in "^$"]
ESCAPABLE = list("()*+-.?[\\]^{|}") + ["n", "r", "t"]
CATS = ["L", "Lu", "Ll", "N", "Nd", "P", "S", "So", "Z", "Zl", "Zs", "C", "Cc", "Pd", "Sm"]
CC = [c for c in ALPHA if c not in "-[]\\"]


def g_atom(R, d):
    r = R.random()
    if r < 0.42:
        return ("lit", R.choice(NORMAL))
    if r < 0.52:
        return ("dot",)
    if r < 0.60:
        e = R.choice([x for x in ESCAPABLE if x not in "^"])
        return ("esc", e)
    if r < 0.66:
        return ("cat", R.random() < 0.3, R.choice(CATS))
    if r < 0.86 or d >= 3:
        items = []
        for _ in range(R.randint(1, 4)):
            q = R.random()
            if q < 0.5:
                items.append(("ch", R.choice(CC)))
            elif q < 0.7:
                a, b = sorted([R.choice(CC), R.choice(CC)])
                items.append(("rng", ("ch", a), ("ch", b)))
            elif q < 0.85:
                items.append(("cat", R.random() < 0.3, R.choice(CATS)))
            else:
                items.append(("cesc", R.choice(ESCAPABLE)))
        if R.random() < 0.15:
            # doubled punctuators (set operators in other dialects)
            p = R.choice("|&~")
            items.insert(R.randint(0, len(items)), ("ch", p))
            items.insert(R.randint(0, len(items)), ("ch", p))
            k = [i for i, it in enumerate(items) if it == ("ch", p)]
            if len(k) >= 2:
                it = items.pop(k[1])
                items.insert(k[0] + 1, it)
        neg = R.random() < 0.3
        lead = R.random() < 0.15
        trail = R.random() < 0.15
        # a leading caret member is ambiguous with negation: escape it
        if items and not neg and not lead:
            f = items[0]
            if f == ("ch", "^"):
                items[0] = ("cesc", "^")
            elif f[0] == "rng" and f[1] == ("ch", "^"):
                items[0] = ("rng", ("cesc", "^"), f[2])
        return ("cls", neg, tuple(items), lead, trail)
    return ("grp", g_re(R, d + 1))


def g_piece(R, d):
    a = g_atom(R, d)
    r = R.random()
    if r < 0.6:
        return a
    if r < 0.7:
        return ("rep", a, 0, None)
    if r < 0.8:
        return ("rep", a, 1, None)
    if r < 0.88:
        return ("rep", a, 0, 1)
    lo = R.randint(0, 3)
    q = R.random()
    if q < 0.34:
        return ("rep", a, lo, lo, "brace")
    if q < 0.67:
        return ("rep", a, lo, None, "brace")
    return ("rep", a, lo, lo + R.randint(0, 2), "pair")


def g_branch(R, d):
    return ("seq", tuple(g_piece(R, d) for _ in range(R.randint(0 if d else 1, 3))))


def g_re(R, d=0):
    n = R.choice([1, 1, 1, 2, 3])
    return ("alt", tuple(g_branch(R, d) for _ in range(n)))


def sample(R, e):
    k = e[0]
    if k == "lit":
        return e[1]
    if k == "esc":
        return IR.ESCMAP.get(e[1], e[1])
    if k in ("dot", "cat", "cls"):
        c = [x for x in ALPHA if IR.single(e, x)]
        return R.choice(c) if c else "a"
    if k == "grp":
        return sample(R, e[1])
    if k == "seq":
        return "".join(sample(R, x) for x in e[1])
    if k == "alt":
        return sample(R, R.choice(e[1]))
    if k == "rep":
        hi = e[3] if e[3] is not None else e[2] + 2
        return "".join(sample(R, e[1]) for _ in range(R.randint(e[2], hi)))
    raise ValueError(e)


def walk(e):
    """All AST nodes (tuples whose first element is a tag string)."""
    if isinstance(e, tuple):
        if e and isinstance(e[0], str):
            yield e
        for x in e:
            if isinstance(x, tuple):
                yield from walk(x)


def constructs(e):
    n = 0
    for x in walk(e):
        if x[0] in ("dot", "cat", "cls", "grp", "rep", "esc"):
            n += 1
        elif x[0] == "alt" and len(x[1]) > 1:
            n += 1
    return n


def _is_complementary(x):
    if x[0] == "cls" and x[1] is True:
        cats = {(it[1], it[2]) for it in x[2] if it[0] == "cat"}
        return any((not n, name) in cats for n, name in cats)
    return False


def complementary_negated_class(e):
    """Does the pattern contain a negated class holding \\p{X} and \\P{X} for the same X (dependency defect)?"""
    return any(_is_complementary(x) for x in walk(e))


def deviant(e):
    """The same pattern with the dependency's deviation applied: such a class matches every character."""
    if not isinstance(e, tuple):
        return e
    if e and isinstance(e[0], str) and _is_complementary(e):
        return ("cls", True, (), False, False)   # negated empty class = any character
    return tuple(deviant(x) if isinstance(x, tuple) else x for x in e)


INVALID = ["(", ")", "a)", "(a", "[", "[a", "a]b[", "\\d", "\\w+", "\\s", "(?:a)", "(?=a)", "(?i)a", "a*?", "a+?", "a??", "a*+", "a{,2}", "a{1,2", "a{}", "\\1", "(a)\\1", "\\p{Xx}",
           "\\p{L", "\\pL", "[a-]]", "*a", "+", "?a", "a**", "\\", "a\\", "[\\d]", "\\b", "\\B", "\\A", "\\z", "(?<n>a)", "(?#c)", "[[:alpha:]]", "a{1}{2}", "\\u0061", "\\x61", "[a--b]",
           "[a-\\p{L}]", "{1}", "a|*"]
NONSTRINGS = [None, True, False, 0, 1, 1.5, [], ["a"], {}, {"a": "a"}, [["a"]]]


def _plain(e):
    """The AST without the generator's spelling tags on quantifiers (('rep', x, lo, hi, spelling) -> ('rep', x, lo, hi))."""
    if not isinstance(e, tuple):
        return e
    if e and e[0] == "rep":
        e = e[:4]
    return tuple(_plain(x) for x in e)


def plan(tier, seed, nproc, scale):
    shards = nproc if tier == "quick" else nproc * 4
    n = int((9000 if tier == "quick" else 250000) * scale)
    return [{"kind": "random", "seed": "%d/%d" % (seed, i), "n": max(1, n // shards)} for i in range(shards)]


def ask(jp, rec, fn, s, p, literal, R):
    if literal:
        st = G.Style(R, feat=None)
        q = "$[?%s(@.s, %s)]" % (fn, G.render_string(st, p))
        doc = [{"s": s}]
    else:
        q = "$[?%s(@.s, @.p)]" % fn
        doc = [{"s": s, "p": p}]
    o = mon.observe(jp.find, q, doc)
    rec.monitor("M-find")
    if o[0] != "ok":
        return q, doc, mon.describe_outcome(o)
    return q, doc, len(o[1]) == 1


def run_shard(spec, rec):
    import jsonpath_rfc9535 as jp
    R = random.Random(spec["seed"])
    for i in range(spec["n"]):
        e = g_re(R)
        p = IR.render(e)
        # the generator's claim of validity is confirmed by the independent parser (else: machinery slip)
        try:
            back = IR.parse(p)
        except IR.Gray:
            rec.feat("gray-zone-skipped")
            continue
        except IR.Invalid as ex:
            rec.note("GENERATOR-SLIP: %r rendered from a valid AST does not parse: %s" % (p, ex))
            rec.feat("generator-slip")
            continue
        if back != _plain(e):
            # the oracle runs on e, the library sees p: they must denote the same expression (reviews/iregexp.md, D7)
            rec.note("GENERATOR-SLIP: %r parses back to a different AST" % (p,))
            rec.feat("generator-slip")
            continue
        subs = {sample(R, e) for _ in range(3)} | {"".join(R.choice(ALPHA) for _ in range(R.randint(0, 4))) for _ in range(2)}
        subs |= {s[:-1] for s in list(subs) if s} | {s + R.choice(ALPHA) for s in list(subs)[:3]} | {R.choice(ALPHA) + s for s in list(subs)[:2]}
        subs = [s for s in subs if len(s) <= 10]
        nt = constructs(e) >= 2
        known = complementary_negated_class(e)
        dev = deviant(e) if known else None
        rec.wal({"pattern": p, "subjects": subs[:3]})
        try:
            with guard(60):
                for s in subs:
                    for fn, orc in (("match", IR.full), ("search", IR.search)):
                        want = orc(e, s)
                        literal = R.random() < 0.3
                        q, doc, got = ask(jp, rec, fn, s, p, literal, R)
                        rec.case((p, s, fn), nt)
                        rec.feat("%s:%s" % (fn, "T" if want else "F"))
                        if got != want:
                            wit = {"function": fn, "pattern": p, "subject": s, "query": q, "document": jsonable(doc), "expected": want, "observed": got}
                            if known and got == orc(dev, s):
                                rec.violation("regex-complementary-property-set", wit)
                            else:
                                rec.violation("%s:%s" % (fn, "false-positive" if got is True else "false-negative" if got is False else "raises"), wit)
                if nt and i % 50 == 0:
                    rec.sample({"pattern": p, "subjects": subs[:4]}, limit=8)
        except CaseTimeout:
            rec.timeout(p)
            continue
        # invalid patterns and non-string arguments: false, never raises
        if i % 10 == 0:
            bad = R.choice(INVALID)
            for fn in ("match", "search"):
                for s in ("a", "", "ab"):
                    q, doc, got = ask(jp, rec, fn, s, bad, R.random() < 0.5, R)
                    rec.case(("invalid", bad, s, fn), True)
                    rec.feat("invalid-pattern")
                    if got is not False:
                        rec.violation("invalid-pattern-not-false", {"function": fn, "pattern": bad, "subject": s, "query": q, "observed": got})
            ns = R.choice(NONSTRINGS)
            for fn in ("match", "search"):
                lit_pat = "a"
                if isinstance(ns, list) and ns and isinstance(ns[0], str):
                    lit_pat = ns[0]
                elif isinstance(ns, dict) and ns:
                    lit_pat = next(iter(ns))
                for (s, pp) in ((ns, "a.*"), ("a", ns), (ns, ns), (ns, lit_pat), (ns, ""), ([""], ""), ({"": 1}, ""), (["ab", "a"], "ab")):
                    o = mon.observe(jp.find, "$[?%s(@.s, @.p)]" % fn, [{"s": s, "p": pp}])
                    rec.monitor("M-find")
                    rec.case(("nonstring", repr(s), repr(pp), fn), True)
                    rec.feat("non-string-argument")
                    got = (len(o[1]) == 1) if o[0] == "ok" else mon.describe_outcome(o)
                    if got is not False:
                        rec.violation("non-string-argument-not-false", {"function": fn, "s": jsonable(s), "p": jsonable(pp), "observed": got})
    # escape-adjacency battery: every ordered pair (and sampled triples) of short pieces in which an escaped character sits
    # right before or after '.', a class or a quantifier - decided by the oracle like any other pattern
    PIECES = ["\\\\", "\\.", "\\[", "\\]", ".", "[.]", "[a.]", "[^.]", "[\\\\]", "[\\]]", "[\\[]", "a", "\\-", "[\\-.]", "\\(", "(.)", "\\{", "x{2}", "\\r", "\\n", "[\\r]", "\\|", "|", ".*",
              "\\*", "\\?", "[.]*", "\\^", "\\$", "[\\^]"]
    FIXED = ["\r", "\n", ".", "\\", "\\\r", "\\.", "a", "\\a", "[", "]", "\\[.]", "", "\\\n", "..", "\r\r", "[.]", "x", "\\x"]
    combos = [a + b for a in PIECES for b in PIECES]
    combos += [R.choice(PIECES) + R.choice(PIECES) + R.choice(PIECES) for _ in range(400)]
    shard_no = int(str(spec["seed"]).split("/")[-1]) if str(spec["seed"]).split("/")[-1].isdigit() else 0
    for ci, p in enumerate(combos):
        if ci % 4 != shard_no % 4:
            continue
        try:
            e = IR.parse(p)
        except (IR.Gray, IR.Invalid):
            continue
        known = complementary_negated_class(e)
        try:
            with guard(30):
                for s_ in FIXED + [sample(R, e) for _ in range(2)]:
                    if len(s_) > 10:
                        continue
                    for fn, orc in (("match", IR.full), ("search", IR.search)):
                        want = orc(e, s_)
                        q, doc, got = ask(jp, rec, fn, s_, p, R.random() < 0.3, R)
                        rec.case(("adjacency", p, s_, fn), True)
                        rec.feat("escape-adjacency-battery")
                        if got != want and not known:
                            rec.violation("%s:%s" % (fn, "false-positive" if got is True else "false-negative" if got is False else "raises"),
                                          {"function": fn, "pattern": p, "subject": s_, "query": q, "document": jsonable(doc), "expected": want, "observed": got, "source": "escape-adjacency-battery"})
        except CaseTimeout:
            rec.timeout(p)
    # deeply nested groups: "(" * k + X + ")" * k has the language of X
    if shard_no == 0:
        for inner_p, lang in (("a", None), ("a|b", None), ("[ab]+", None), (".", None), ("a*", None), ("ALT", None)):
            for k in (10, 100, 250, 340, 400, 700, 2000):
                if inner_p == "ALT":
                    p = "(a|" * k + "b" + ")" * k
                    e_in = IR.parse("a|b")
                else:
                    p = "(" * k + inner_p + ")" * k
                    e_in = IR.parse(inner_p)
                for s_ in ("a", "b", "", "ab", "ba\n"):
                    for fn, orc in (("match", IR.full), ("search", IR.search)):
                        want = orc(e_in, s_)
                        q, doc, got = ask(jp, rec, fn, s_, p, False, R)
                        rec.case(("nesting", inner_p, k, s_, fn), True)
                        rec.feat("group-nesting-battery")
                        if got != want:
                            wit = {"function": fn, "pattern": "%d nested groups around %r" % (k, inner_p), "subject": s_, "expected": want, "observed": got if isinstance(got, bool) else str(got)[:120]}
                            if not isinstance(got, bool) and "RecursionError" in str(got) and k >= 200:
                                rec.violation("regex-group-nesting-recursion", wit)
                            else:
                                rec.violation("%s:%s" % (fn, "false-positive" if got is True else "false-negative" if got is False else "raises"), wit)
    # patterns of doubtful validity (gray zones of RFC 9485, constructs of other dialects): the result is not decided
    # here, but neither function may raise
    for pat in G.HOSTILE_PATTERNS + ["a{2,1}", "[z-a]", "[b-a]x", "a{3,2}b", "(a{2,1})", "[^z-a]", "\\p{Cn}", "a{00}", "[a-\\d]", "x{1,0}|y"]:
        for fn in ("match", "search"):
            for s_ in ("a", "", "ab", "z"):
                for literal in (True, False):
                    q, doc, got = ask(jp, rec, fn, s_, pat, literal, R)
                    rec.case(("hostile", pat, s_, fn, literal), True)
                    rec.feat("hostile-pattern")
                    if got is not True and got is not False:
                        rec.violation("pattern-makes-%s-raise" % fn, {"function": fn, "pattern": pat, "subject": s_, "query": q, "observed": got})
    # the listed finding's own witness, so that it is observed on every run
    for s in ("a", "-"):
        q, doc, got = ask(jp, rec, "match", s, "[^\\P{L}\\p{L}]", False, R)
        rec.case(("witness", s), True)
        if got is not False:
            rec.violation("regex-complementary-property-set", {"function": "match", "pattern": "[^\\P{L}\\p{L}]", "subject": s, "expected": False, "observed": got})


def on_worker_failure(f):
    if f["kind"] == "died" and isinstance(f.get("rc"), int) and f["rc"] < 0:
        return ("violation", "native-crash-signal-%d" % -f["rc"], {"last_case": f.get("last_case"), "stderr": (f.get("stderr") or "")[-600:]})
    return None


def replay(case, rec):
    import jsonpath_rfc9535 as jp
    rec.case("r1", True)
    rec.case("r2", True)
    if "pattern" in case and "subject" in case:
        fn = case["function"]
        e = IR.parse(case["pattern"])
        want = (IR.full if fn == "match" else IR.search)(e, case["subject"])
        q, doc, got = ask(jp, rec, fn, case["subject"], case["pattern"], False, random.Random(0))
        if got != want:
            rec.violation("replay", dict(case, observed=got))
