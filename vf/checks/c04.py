"""C04 — every string outside the RFC 9535 grammar is rejected by compile()."""
from __future__ import annotations

import itertools
import random

from ..gen import queries as G
from ..oracle import abnf
from .. import mon
from ..worker import guard, CaseTimeout

PROPERTY = "C04"
RULE = ("strings from 5 sources (the 5th: calls spelled with 30 function names outside the grammar — upper case, leading underscore or digit, non-ASCII, punctuation — on an environment where functions ARE registered under exactly those names, in 8 positions) and 4 on the default environment — (1) named rule-violation operators applied to valid derivations (blank space where S is not allowed, "
        "leading zeros / -0 in int positions, malformed frac/exp, doubled or dangling operators, '!' or parentheses around comparands, "
        "chained comparisons, missing/extra commas and colons, unbalanced brackets, text before '$' / after the last segment, upper-case "
        "keywords, illegal shorthand characters, bad escapes, non-RFC blank characters); (2) every single-character edit "
        "(insert/delete/replace/transpose over a token alphabet) of short valid queries; (3) all sequences of <=3 tokens (quick; sampled "
        "4-token; thorough: all 4-token) over a 28-token alphabet, with and without separating spaces; (4) random garbage. Every string "
        "that compile() ACCEPTS is classified by the liberal Earley recogniser: accepted and not in the liberal ABNF language = violation. "
        "A sample of the rejected strings is classified too, to measure how many explored strings are really outside the grammar. "
        "Non-trivial: classified as outside the liberal grammar; distinct by string.")
ASSUMPTIONS = ["liberal ABNF (strict + blank space inside singular-query brackets) in vf/oracle/abnf.py is a superset of every reading of the RFC 9535 grammar",
               "only grammar membership is decided here; well-typedness is C05"]
DECIDING_MONITORS = ["M-compile"]

ALPHABET28 = ["$", "@", ".", "..", "[", "]", "(", ")", "?", ",", ":", "*", "!", "&&", "||", "==", "!=", "<", "<=", "'a'", '"a"', "1", "-1", "01", "1.5", "a", "true", "f("]
EDIT_ALPHABET = list("$@.[]()?,:*!&|=<>'\"\\ \n\t01-+eEa_") + ["\ufeff", "\u200b", "é", " ", "\x0b", "\x0c", " ", "\x00", "-0", "00", "&&", "||", ".."]


def plan(tier, seed, nproc, scale):
    shards = nproc if tier == "quick" else nproc * 4
    n = int((30000 if tier == "quick" else 600000) * scale)
    specs = [{"kind": "operators+edits", "seed": "%d/%d" % (seed, i), "n": n // shards, "classify_rejected": 0.02} for i in range(shards)]
    for i in range(shards):
        specs.append({"kind": "tokens", "seed": "%d/t%d" % (seed, i), "shard": i, "shards": shards, "maxlen": 3 if tier == "quick" else 4,
                      "sample4": int(60000 * scale) // shards if tier == "quick" else 0, "classify_rejected": 0.01})
    return specs


# --- named rule-violation operators: text -> list of (name, mutated text)
def _inside_quotes(text, pos):
    """Conservative: is there any quote character before pos? (then the insertion could land inside a literal or a name)"""
    return "'" in text[:pos] or '"' in text[:pos]


def violations_of(R, text):
    out = []

    def add(name, t):
        if t != text:
            out.append((name, t))
    n = len(text)
    pos = R.randrange(n + 1)
    add("leading-space", " " + text)
    add("trailing-space", text + R.choice([" ", "\n", "\t"]))
    add("text-before-root", R.choice(["a", "$", ".", "x "]) + text)
    inv = R.choice(["\ufeff", "\u200b", "\u2060", "\u00a0", "\ufffe", "\u00ad", "\u200e", "\x7f", "\x00"])
    add("invisible-before-root", inv + text)
    add("invisible-after-query", text + inv)
    add("invisible-inside", text[:pos] + inv + text[pos:] if not _inside_quotes(text, pos) else text)
    add("text-after-query", text + R.choice(["a", "$", "]", ")", "'x'", ".", "..", "[", ",", "1"]))
    for pat, rep, name in [(".", ". ", "space-after-dot"), ("..", ".. ", "space-after-dotdot"), ("..", ". .", "split-dotdot"), ("(", " (", "space-before-call-paren"),
                           ("==", "= =", "split-operator"), ("==", "=", "single-equals"), ("==", "===", "triple-equals"), ("&&", "&", "single-amp"), ("||", "|", "single-pipe"),
                           ("&&", "&& &&", "doubled-and"), ("||", "|| ||", "doubled-or"), ("!=", "! =", "split-ne"), ("<=", "< =", "split-le"), (",", ",,", "doubled-comma"),
                           (",", "", "missing-comma"), (":", "::::", "extra-colons"), ("]", "", "missing-rbracket"), ("[", "", "missing-lbracket"), ("]", "]]", "extra-rbracket"),
                           (")", "", "missing-rparen"), ("(", "((", "extra-lparen"), (")", "))", "extra-rparen"), ("true", "True", "upper-keyword"), ("true", "TRUE", "upper-keyword"),
                           ("false", "False", "upper-keyword"), ("null", "NULL", "upper-keyword"), ("null", "Null", "upper-keyword"), ("?", "??", "doubled-question"),
                           ("?", "", "missing-question"), ("@", "@@", "doubled-current"), ("$", "$$", "doubled-root"), ("*", "**", "doubled-wild"), ("'", "", "missing-quote"),
                           ('"', "", "missing-dquote"), ("\\", "\\x", "bad-escape"), ("\\u", "\\u12", "short-u-escape"), ("\\u", "\\U", "upper-u-escape"), ("!", "!!", "double-not"),
                           ("]", ",]", "trailing-comma"), ("[", "[,", "leading-comma"), (")", ",)", "trailing-arg-comma"), (" ", "\x0b", "vt-as-blank"), (" ", "\x0c", "ff-as-blank"),
                           (" ", " ", "nbsp-as-blank"), ("\n", " ", "ls-as-blank"), (" ", "\x1f", "us-as-blank"), (".", ".-", "hyphen-shorthand"), (".", ".1", "digit-shorthand"),
                           (".", ".'a'", "quoted-shorthand"), ("[", ".[", "dot-bracket"), ("e", "e+", "exp-sign-only"), (".", "..", "dot-to-dotdot")]:
        idxs = [i for i in range(n) if text.startswith(pat, i)]
        if idxs:
            i = R.choice(idxs)
            add(name, text[:i] + rep + text[i + len(pat):])
    # a comparand with several selectors in one segment (not a singular query)
    import re as _re
    ms = [m.start() for m in _re.finditer(r"\]\s*(==|!=|<=|>=|<|>)", text)]
    if ms:
        i = R.choice(ms)
        add("multi-selector-comparand", text[:i] + R.choice([",0", ",'b'", ", 1", ",\"x\""]) + text[i:])
    # a bare literal where a logical expression is required
    idxs = [i for i in range(n) if text[i] in "?("]
    if idxs:
        i = R.choice(idxs)
        lit = R.choice(["true", "false", "null", "1", "'x'", "0.5"])
        op = R.choice(["||", "&&"])
        add("bare-literal-operand", text[:i + 1] + lit + op + text[i + 1:])
        add("bare-literal-operand", text[:i + 1] + "(" + lit + ")" + op + text[i + 1:])
        add("negated-literal", text[:i + 1] + "!" + lit + op + text[i + 1:])
    # the other quote escaped inside a string literal
    for q_, other in (("'", '"'), ('"', "'")):
        idxs = [i for i in range(n) if text[i] == q_]
        if idxs:
            i = idxs[0]   # an opening quote (the first quote character of that kind)
            add("other-quote-escaped", text[:i + 1] + "\\" + other + text[i + 1:])
    # numbers: leading zeros, -0 index, malformed frac/exp
    import re
    nums = [(m.start(), m.end()) for m in re.finditer(r"-?[0-9]+", text)]
    if nums:
        s, e = R.choice(nums)
        tok = text[s:e]
        neg = tok.startswith("-")
        digits = tok.lstrip("-")
        add("leading-zero", text[:s] + ("-" if neg else "") + "0" + digits + text[e:])
        add("double-minus", text[:s] + "-" + ("" if neg else "-") + digits + text[e:] if not neg else text[:s] + "--" + digits + text[e:])
        add("plus-sign", text[:s] + "+" + digits + text[e:])
        add("trailing-dot", text[:e] + "." + text[e:])
        add("leading-dot-frac", text[:s] + "." + digits + text[e:])
        add("bare-exp", text[:e] + "e" + text[e:])
        add("hex", text[:s] + "0x" + digits + text[e:])
    idx = [(m.start(), m.end()) for m in re.finditer(r"\[\s*(-?[0-9]+)\s*[\],:]", text)]
    if idx:
        s, e = R.choice(idx)
        add("minus-zero-index", text[:s] + "[-0" + text[e - 1:])
    # comparands: parenthesised / negated / chained
    cmp_ = [(m.start(), m.end()) for m in re.finditer(r"(==|!=|<=|>=|<|>)", text)]
    if cmp_:
        s, e = R.choice(cmp_)
        add("negated-right-comparand", text[:e] + "!" + text[e:])
        add("chained-comparison", text[:e] + "1" + text[s:e] + text[e:])
        add("dangling-operator", text[:e] + text[e:].lstrip(" \t\n\r").replace(text[e:].lstrip(" \t\n\r")[:1], "", 1) if False else text[:e] + "]")
    return out


def accepted_but_invalid(jp, rec, text, src, lib):
    """Returns True when the case is decided (held), records a violation otherwise."""
    o = mon.observe(jp.compile, text)
    rec.monitor("M-compile")
    if o[0] == "jperr":
        return "rejected"
    if o[0] == "exc":
        # not C04's verdict (C13's), but record it as telemetry
        rec.feat("non-jsonpath-exception:" + type(o[1]).__name__)
        return "rejected"
    rec.monitor("recogniser")
    if lib.member(text):
        return "valid"
    key = classify(src)
    small = text
    if rec.viol_counts.get(key, 0) == 0:
        from ..shrink import shrink_text

        def still(t):
            o2 = mon.observe(jp.compile, t)
            return o2[0] == "ok" and not lib.member(t)
        small = shrink_text(text, still, budget=120)
        o = mon.observe(jp.compile, small)
    rec.violation(key, {"query": small, "original_query": text, "source": src, "compiled_to": str(o[1]) if o[0] == "ok" else None})
    return "violation"


def classify(src):
    return "accepted:" + src


def handle(jp, rec, R, text, src, lib, classify_p):
    if len(text) > 400 or any(0xD800 <= ord(c) <= 0xDFFF for c in text):
        return
    rec.wal({"compile": text})
    try:
        with guard(60):
            r = accepted_but_invalid(jp, rec, text, src, lib)
            outside = None
            if r == "rejected" and R.random() < classify_p:
                rec.monitor("recogniser")
                outside = not lib.member(text)
                rec.feat("rejected-classified:" + ("outside-grammar" if outside else "grammatical(ill-typed or stricter)"))
            elif r == "violation":
                outside = True
    except CaseTimeout:
        rec.timeout(text)
        return
    rec.feat("outcome:" + r)
    rec.case(text, bool(outside))
    if outside:
        rec.sample({"string": text, "source": src, "compile": "rejected" if r == "rejected" else "ACCEPTED"}, limit=10)


def run_shard(spec, rec):
    import jsonpath_rfc9535 as jp
    R = random.Random(spec["seed"])
    lib = abnf.get(True)
    if spec["kind"] == "operators+edits":
        cfg = G.Cfg(filters=True, regex_functions=True, max_depth=2, max_segments=2)
        gen = G.QGen(R, cfg)
        n = 0
        while n < spec["n"]:
            q = gen.query(root="$")
            text = G.render(q, R, ws=R.choice(["none", "none", "sparse"]))
            if len(text) > 120:
                continue
            for name, t in violations_of(R, text):
                handle(jp, rec, R, t, "operator:" + name, lib, 0.15)
                rec.feat("operator:" + name)
                n += 1
            # single-edit neighbours
            for _ in range(12):
                i = R.randrange(len(text) + 1)
                op = R.choice(["ins", "del", "rep", "swap"])
                c = R.choice(EDIT_ALPHABET)
                if op == "ins":
                    t = text[:i] + c + text[i:]
                elif op == "del":
                    t = text[:i] + text[i + 1:]
                elif op == "rep":
                    t = text[:i] + c + text[i + 1:]
                else:
                    t = text[:i] + text[i + 1:i + 2] + text[i:i + 1] + text[i + 2:]
                if t != text:
                    handle(jp, rec, R, t, "edit:" + op, lib, spec["classify_rejected"] * 5)
                    n += 1
            # random garbage
            if R.random() < 0.3:
                t = "".join(R.choice(EDIT_ALPHABET) for _ in range(R.randint(1, 30)))
                handle(jp, rec, R, R.choice(["", "$"]) + t, "garbage", lib, spec["classify_rejected"])
                n += 1
        custom_env_battery(rec, R, lib)
        # parenthesised comparands inside runs of parentheses (a parenthesised expression is never a comparable)
        for c_ in ["@.a", "'x'", "1", "length(@.a)", "$.b", "value(@.a)", "@", "true", "@['a']", "count(@.*)"]:
            for tmpl in ["$[?((C) == 1)]", "$[?((C)==1)]", "$[?!((C) == 1)]", "$[?(1 == (C))]", "$[?(((C)) == 1)]", "$[?((C) == (C))]", "$[?(@.x && ((C)) < 2)]", "$[?((C) == 1 || @.y)]",
                         "$[?((C)) == 1]", "$[?(C) == 1]", "$[?( (C) != 1)]", "$[?((C) == 1) && @.y]", "$[?@.y && ((C) >= 1)]", "$[?(((C) == 1))]", "$[?((!(C)) == 1)]", "$[?(((C) == 1) == true)]"]:
                handle(jp, rec, R, tmpl.replace("C", c_), "operator:paren-comparand-in-group", lib, 1.0)
                rec.feat("operator:paren-comparand-in-group")
        # escapes that do not denote a Unicode scalar value, in names and literals
        for body in ["\\uD83D\\uD83D", "\\uD800\\uDBFF", "\\uDBFF\\uD800", "\\uDC00\\uDC00", "\\uDE00\\uD83D", "\\uD83D", "\\uDC00", "\\uD83D\\u0041", "\\uD83Dx", "\\uD83D\\n",
                     "a\\uD83D\\uD83D\\uDE00", "\\uD83D\\uDE00\\uDE00", "\\udbff\\uffff", "\\ud800\\ue000"]:
            for tmpl in ("$['%s']", '$["%s"]', "$[?@ == '%s']", '$[?match(@, "%s")]', "$.a['b', '%s']"):
                handle(jp, rec, R, tmpl % body, "operator:escape-not-a-scalar-value", lib, 1.0)
                rec.feat("operator:escape-not-a-scalar-value")
        for inv in ["\ufeff", "\u200b", "\u2060", "\u00a0", "\ufffe", "\u00ad", "\u200e", "\x7f", "\x00", "\u0085", "\u2028", "\u3000", "\u180e"]:
            for base in ["$", "$.a", "$[0]", "$..*", "$[?@.a == 1]", "$['a']"]:
                for t in (inv + base, base + inv, inv + inv + base, base[:1] + inv + base[1:]):
                    handle(jp, rec, R, t, "operator:invisible-character", lib, 1.0)
                    rec.feat("operator:invisible-character")
    else:
        k = 0
        for L in range(0, spec["maxlen"] + 1):
            for seq in itertools.product(ALPHABET28, repeat=L):
                k += 1
                if k % spec["shards"] != spec["shard"]:
                    continue
                for sep in ("", " "):
                    if sep == " " and L < 2:
                        continue
                    handle(jp, rec, R, sep.join(seq), "tokens%d" % L, lib, spec["classify_rejected"])
        if spec["maxlen"] >= 3:
            rec.exhaustive = True
        for _ in range(spec.get("sample4", 0)):
            seq = [R.choice(ALPHABET28) for _ in range(R.choice([4, 4, 5, 6]))]
            handle(jp, rec, R, R.choice(["", " "]).join(seq), "tokens-sampled", lib, spec["classify_rejected"])


BAD_FUNCTION_NAMES = ["startsWith", "StartsWith", "_starts", "d\u00e9bute", "F", "FOO", "f-g", "1f", "f.g", "\u00e9", "f g", "f\u00e9", "f$", "f:", "a.b", "f'", "\U0001f600", "fF", "f\u0131",
                      "length ", " length", "Length", "coUnt", "f\u00b2", "f\u0663", "", "f*", "@f", "$f", "f!"]


def custom_env_battery(rec, R, lib):
    """An environment on which functions are registered under names the grammar does not allow (function-name =
    LCALPHA *(LCALPHA / "_" / DIGIT)): a call spelled with such a name is outside the grammar and must still be rejected."""
    from jsonpath_rfc9535 import JSONPathEnvironment
    reg = {}
    for nm in BAD_FUNCTION_NAMES + ["starts_with", "f1", "a_"]:
        reg[nm] = ((mon.V,), mon.L, lambda *a: True)
        reg[nm + "2"] = ((mon.V, mon.V), mon.V, lambda *a: 1)
    env, _ = mon.make_env(reg)
    for nm in BAD_FUNCTION_NAMES:
        for tmpl in ("$[?%s(@.a)]", "$[?!%s(@.a)]", "$[?%s(1) && @.b]", "$[?%s2(@.a, 'x') == 1]", "$[?@[?%s(@)]]", "$[?count(@[?%s(@.a)]) > 1]", "$[?length(%s2(1, 2)) > 1]", "$[? %s (@.a)]"):
            text = tmpl % ((nm,) if tmpl.count("%s") == 1 else (nm, nm))
            if "%s2" in tmpl:
                text = tmpl.replace("%s2", nm + "2")
            if any(0xD800 <= ord(c) <= 0xDFFF for c in text):
                continue
            rec.monitor("recogniser")
            if lib.member(text):
                rec.feat("custom-env:grammatical")   # e.g. the empty name turns the call into a parenthesised expression
                continue
            o = mon.observe(env.compile, text)
            rec.monitor("M-compile")
            rec.case(("custom-env", text), True)
            rec.feat("custom-env:" + ("rejected" if o[0] != "ok" else "ACCEPTED"))
            if o[0] == "ok":
                rec.violation("accepted:custom-function-name", {"query": text, "registered_function_name": nm if "%s2" not in tmpl else nm + "2", "source": "custom-env",
                                                               "compiled_to": str(o[1])})
    # sanity of the battery itself: grammatical names on the same environment are accepted
    for text in ("$[?starts_with(@.a)]", "$[?f1(@.a)]", "$[?a_2(1, 2) == 1]"):
        o = mon.observe(env.compile, text)
        if o[0] != "ok":
            rec.note("BATTERY-SLIP: %r not accepted on the custom environment: %s" % (text, mon.describe_outcome(o)))
            rec.feat("generator-slip")


def finish(m, tier):
    m["extra"]["exhaustive_scope"] = "all sequences of <=%d tokens over the 28-token alphabet, with and without separating spaces; other sources sampled" % (3 if tier == "quick" else 4)
    return []


def replay(case, rec):
    import jsonpath_rfc9535 as jp
    rec.case("r1", True)
    rec.case("r2", True)
    accepted_but_invalid(jp, rec, case["query"], case.get("source", "replay"), abnf.get(True))
