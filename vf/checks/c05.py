"""C05 — validity rules: function well-typedness, singular comparands, integer range."""
from __future__ import annotations

import itertools
import random

from ..gen import queries as G
from ..oracle import typing as T
from ..oracle.sem import V, L, N, BUILTIN_SIGS, is_singular
from .. import mon
from ..worker import guard, CaseTimeout, jsonable

PROPERTY = "C05"
RULE = ("registries drawn from all signatures {Value,Logical,Nodes}^n -> type, n=0..3 (each shard gets a different registry; thorough covers "
        "all 120 signatures) plus the built-ins and unknown names; grammatical expression trees that place calls, literals, singular and "
        "non-singular queries in every position (test, comparison operand, nested argument, under '!', inside &&/||, inside parentheses, "
        "argument written bare vs parenthesised) WITHOUT regard to types, so about half are ill-typed; environments with configured "
        "min/max_int_index (default, small, asymmetric) and integers at bound-1/bound/bound+1 in index, slice and embedded positions. Half of the environments also set an option unrelated to validity (max_recursion_depth 1 or 2, nondeterministic); one case in eight is compiled again on the same environment instance after a function was re-registered under the same name with another signature or the index range was changed, and the verdict must follow the new configuration. "
        "Refuted when compile() succeeds <=/=> (well-typed per RFC 9535 2.4.3 and all integers in range), when the error is not a "
        "JSONPathError, or when a registered probe function is called during compile(). Non-trivial: ill-typed/out-of-range, or "
        "well-typed with call nesting >= 2; distinct by (registry, AST, bounds). ledger = (parameter type x argument form) and "
        "(position x result type) cells."
        " Bounds are configured by subclass attribute or on the instance after construction (and after a first use), including ranges beyond 2^53; four registries that reuse the same function names with different signatures are used alternately in each worker.")
ASSUMPTIONS = ["vf/oracle/typing.py transcribes RFC 9535 2.4.3 (cross-validated against the repository's IETF well-typedness table by ./selfcheck)",
               "a non-singular query used as a comparison operand counts as a validity error (the grammar itself already excludes it)"]
DECIDING_MONITORS = ["M-compile"]

TYPES = (V, L, N)
ALL_SIGS = [(params, ret) for n in range(0, 4) for params in itertools.product(TYPES, repeat=n) for ret in TYPES]


def impl_for(ret):
    if ret == V:
        return lambda *a: 1
    if ret == L:
        return lambda *a: True
    from jsonpath_rfc9535 import JSONPathNodeList
    return lambda *a: JSONPathNodeList()


class ChaosGen(G.QGen):
    """Places every form in every position; types are checked afterwards by the oracle."""

    def __init__(self, R, cfg, chaos=0.5, unknown=("nope", "undefined_fn")):
        super().__init__(R, cfg)
        self.chaos = chaos
        self.unknown = unknown
        self.ledger = None

    def any_func(self):
        names = sorted(self.cfg.registry)
        if self.R.random() < 0.04:
            return self.R.choice(self.unknown)
        return self.R.choice(names)

    def any_call(self, depth):
        name = self.any_func()
        if name not in self.cfg.registry:
            n = self.R.randint(0, 2)
            return ("call", name, tuple(self.any_arg(depth + 1) for _ in range(n)))
        params, _ = self.cfg.registry[name]
        R = self.R
        n = len(params)
        if R.random() < 0.06:
            n = max(0, n + R.choice([-1, 1]))
        args = []
        for i in range(n):
            if i < len(params) and R.random() >= self.chaos:
                args.append(self.arg(params[i], depth + 1))
            else:
                args.append(self.any_arg(depth + 1))
        return ("call", name, tuple(args))

    def any_arg(self, depth):
        R = self.R
        r = R.random()
        deep = depth > self.cfg.max_depth + 1
        if r < 0.2:
            return self.literal()
        if r < 0.4:
            return self.singular()
        if r < 0.55:
            return self.query(depth, nofilter=True, maxseg=2)
        if r < 0.75 and not deep:
            return self.any_call(depth)
        if r < 0.9:
            # explicitly logical argument forms: negation, parentheses, comparison, conjunction
            inner = ("test", self.singular() if R.random() < 0.5 else self.query(depth, nofilter=True, maxseg=1))
            if not deep and R.random() < 0.3:
                inner = ("test", self.any_call(depth + 1))
            k = R.choice(["not", "paren", "not-paren", "cmp", "and", "or", "paren", "paren-paren"])
            if k in ("paren", "paren-paren") and not deep and R.random() < 0.6:
                # a parenthesised call is a LogicalType paren-expr whatever the call returns
                inner = ("test", self.any_call(depth + 1))
            if k == "paren-paren":
                return ("paren", ("paren", inner))
            if k == "not":
                return ("not", inner)
            if k == "paren":
                return ("paren", inner)
            if k == "not-paren":
                return ("not", ("paren", inner))
            if k == "cmp":
                return ("cmp", R.choice(["==", "<"]), self.singular(), self.literal())
            return (k, (inner, ("cmp", "!=", self.singular(), self.literal())))
        e = self.expr(depth + 1)
        return e[1] if e[0] == "test" else e

    # chaos overrides: positions are filled type-agnostically with probability self.chaos
    def arg(self, t, depth):
        if self.R.random() < self.chaos * 0.5:
            return self.any_arg(depth)
        return super().arg(t, depth)

    def comparable(self, depth):
        R = self.R
        if R.random() < self.chaos:
            r = R.random()
            if r < 0.3:
                return self.literal()
            if r < 0.5:
                return self.singular()
            if r < 0.65:
                return self.query(depth, nofilter=True, maxseg=2)   # maybe non-singular
            if depth <= self.cfg.max_depth:
                return self.any_call(depth + 1)
            return self.singular()
        return super().comparable(depth)

    def test(self, depth):
        R = self.R
        if R.random() < self.chaos and depth <= self.cfg.max_depth:
            return ("test", self.any_call(depth + 1))
        return super().test(depth)

    def call(self, name, depth):
        if name in ("match", "search") and self.R.random() < self.chaos:
            return self.any_call(depth)
        return super().call(name, depth)


def call_depth(x):
    if not isinstance(x, tuple):
        return 0
    d = max((call_depth(y) for y in x), default=0)
    return d + 1 if x and x[0] == "call" else d


def ledger_cells(q, reg, cells):
    """(param type x argument form) and (position x result type) cells present in q."""
    def form(a):
        k = a[0]
        if k == "lit":
            return "literal"
        if k == "q":
            return "singular-query" if is_singular(a) else "non-singular-query"
        if k == "call":
            return "call->%s" % (reg[a[1]][1] if a[1] in reg else "unknown")
        return "logical-" + k

    def ex(e, pos):
        k = e[0]
        if k in ("or", "and"):
            for x in e[1]:
                ex(x, "operand-of-" + k)
        elif k == "not":
            ex(e[1], "under-not")
        elif k == "paren":
            ex(e[1], "in-parens")
        elif k == "cmp":
            for x in (e[2], e[3]):
                cells["position:comparand|" + form(x)] = cells.get("position:comparand|" + form(x), 0) + 1
                if x[0] == "call":
                    call(x)
                elif x[0] == "q":
                    qq(x)
        elif k == "test":
            x = e[1]
            cells["position:test(%s)|%s" % (pos, form(x))] = cells.get("position:test(%s)|%s" % (pos, form(x)), 0) + 1
            if x[0] == "call":
                call(x)
            else:
                qq(x)
        elif k == "q":
            qq(e)
        elif k == "call":
            call(e)

    def call(c):
        params = reg[c[1]][0] if c[1] in reg else ()
        for i, a in enumerate(c[2]):
            t = params[i] if i < len(params) else "extra"
            key = "param:%s|%s" % (t, form(a))
            cells[key] = cells.get(key, 0) + 1
            if a[0] == "call":
                call(a)
            elif a[0] == "q":
                qq(a)
            elif a[0] != "lit":
                ex(a, "argument")

    def qq(q_):
        for _, sels in q_[2]:
            for s in sels:
                if s[0] == "filter":
                    ex(s[1], "top")
    qq(q)


def plan(tier, seed, nproc, scale):
    shards = nproc if tier == "quick" else nproc * 4
    n = int((120000 if tier == "quick" else 1200000) * scale)
    return [{"kind": "random", "seed": "%d/%d" % (seed, i), "n": n // shards, "shard": i, "shards": shards} for i in range(shards)]


def make_registry(R, spec, variant=0):
    sigs = list(ALL_SIGS)
    R.shuffle(sigs)
    # make sure the union over shards covers all signatures: rotate by shard
    k = (len(ALL_SIGS) + spec["shards"] - 1) // spec["shards"]
    mine = ALL_SIGS[spec["shard"] * k:(spec["shard"] + 1) * k] + sigs[:6]
    if variant:
        # same names, different signatures: environments must not leak registrations into each other
        mine = sigs[:len(mine)]
    reg = {}
    # every name the grammar allows (LCALPHA *(LCALPHA / "_" / DIGIT)), including names that begin like a keyword or a
    # standard function
    special = ["nullable", "falsey", "true_1", "null_", "trueish", "t", "n", "length2", "count_", "v1_2_3", "nulls", "matches", "valueof", "searcher", "falses", "x_"]
    for i, (params, ret) in enumerate(mine):
        reg[special[(i // 4) % len(special)] if i % 4 == 1 else ("f%d" % i if i % 3 else "fn_%d" % i)] = (params, ret)
    return reg


def run_shard(spec, rec):
    import jsonpath_rfc9535 as jp
    from jsonpath_rfc9535 import JSONPathEnvironment
    R = random.Random(spec["seed"])
    registries = [make_registry(R, spec, v) for v in range(4)]
    for user in registries:
        for name, (params, ret) in user.items():
            rec.feat("signature:(%s)->%s" % (",".join(params), ret))
    bounds_choices = [None, None, (-(2**53) + 1, 2**53 - 1), (-10, 10), (0, 100), (-1000, 10), (-5, 5), (-1, 0),
                      (-(2**53), 2**53), (-(2**63), 2**63 - 1), (-(2**53) - 2, 2**53 + 2)]
    envs = {}
    cells = {}
    for _ in range(spec["n"]):
        b = R.choice(bounds_choices)
        ri = R.randrange(len(registries))
        user = registries[ri]
        sigs = dict(BUILTIN_SIGS)
        sigs.update(user)
        how = R.choice(["class", "class", "instance"])
        # options that have nothing to do with validity must not influence it
        oi = R.choice([0, 0, 0, 1, 2, 3])
        how = how + ("", "+max_recursion_depth=1", "+max_recursion_depth=2", "+nondeterministic")[oi]
        if (ri, b, how) not in envs:
            attrs = {} if b is None else {"min_int_index": b[0], "max_int_index": b[1]}
            attrs.update(({}, {"max_recursion_depth": 1}, {"max_recursion_depth": 2}, {"nondeterministic": True})[oi])
            if how.startswith("class") or b is None:
                envs[(ri, b, how)] = mon.make_env({n_: (p, r, impl_for(r)) for n_, (p, r) in user.items()}, attrs=attrs)
            else:
                # configured on the instance after construction (and after a first use with the default range)
                e_, pr_ = mon.make_env({n_: (p, r, impl_for(r)) for n_, (p, r) in user.items()}, attrs={k_: v_ for k_, v_ in attrs.items() if not k_.endswith("_int_index")})
                try:
                    e_.compile("$[1, 2:3]")
                except Exception:  # noqa: BLE001
                    pass
                e_.min_int_index, e_.max_int_index = b
                envs[(ri, b, how)] = (e_, pr_)
        env, probes = envs[(ri, b, how)]
        rec.feat("bounds-configured-on:" + how)
        lo, hi = b if b else (-(2**53) + 1, 2**53 - 1)
        cfg = G.Cfg(filters=True, registry=sigs, regex_functions=True, max_depth=2, max_segments=2)
        near = [lo - 1, lo, lo + 1, hi - 1, hi, hi + 1, 0, 1, -1]
        cfg.indices = near if R.random() < 0.5 else [0, 1, -1, 2]
        gen = ChaosGen(R, cfg, chaos=R.choice([0.0, 0.2, 0.5, 0.5, 0.8]))
        e = gen.expr(1)
        pre = R.choice([(), (("child", (("idx", R.choice(cfg.indices)),)),), (("desc", (gen.slice() if R.random() < 0.5 else ("idx", R.choice(cfg.indices)),)),)])
        q = ("q", "$", pre + (("child", (("filter", e),)),) + (() if R.random() < 0.7 else (("child", (gen.slice(),)),)))
        if not G.representable_literals(q):
            continue
        text = G.render(q, R, feat=rec.features)
        wt, why_t = T.well_typed(q, sigs)
        rng, why_r = T.in_range(q, lo, hi)
        want = wt and rng
        for p in probes.values():
            p.calls.clear()
        rec.wal({"compile": text, "bounds": b})
        try:
            with guard(30):
                o = mon.observe(env.compile, text)
        except CaseTimeout:
            rec.timeout(text)
            continue
        rec.monitor("M-compile")
        called = [n_ for n_, p in probes.items() if p.calls]
        ledger_cells(q, sigs, cells)
        nontrivial = (not want) or call_depth(q) >= 2
        rec.case((sorted(user.items()), q, b), nontrivial)
        rec.feat("expected:%s" % ("valid" if want else ("ill-typed" if not wt else "out-of-range")))
        if nontrivial:
            rec.sample({"query": text, "signatures": {k: "(%s)->%s" % (",".join(p), r) for k, (p, r) in user.items() if k + "(" in text},
                        "bounds": b, "valid": want, "why_not": why_t or why_r})
        wit = {"query": text, "ast": jsonable(q), "registry": {k: [list(p), r] for k, (p, r) in user.items()}, "bounds": list(b) if b else None,
               "expected_valid": want, "why_invalid": why_t or why_r, "observed": mon.describe_outcome(o)}
        if called:
            rec.violation("probe-called-during-compile", dict(wit, called=called))
        if o[0] == "exc":
            rec.violation("raises-" + type(o[1]).__name__, wit)
        elif (o[0] == "ok") != want:
            if want:
                rec.violation("rejects-valid:" + type(o[1]).__name__ + ":" + reason_class(mon.describe_outcome(o)), wit)
            else:
                rec.violation("accepts-invalid:" + reason_class(why_t or why_r), wit)
        elif R.random() < 0.12:
            v = reconfigure_case(rec, R, text, q, user, registries, b, bounds_choices)
            if v:
                rec.violation(v[0], v[1])
    rec.extra["ledger"] = cells


def reconfigure_case(rec, R, text, q, user, registries, b, bounds_choices):
    """The same text compiled again on the SAME environment instance after its configuration changed (a function re-registered
    under the same name with another signature, or the index range changed): the verdict must follow the new configuration."""
    import copy as _copy
    env, probes = mon.make_env({n_: (p, r, impl_for(r)) for n_, (p, r) in user.items()})
    if b:
        env.min_int_index, env.max_int_index = b
    sigs = dict(BUILTIN_SIGS)
    sigs.update(user)
    lo, hi = b if b else (-(2**53) + 1, 2**53 - 1)
    steps = []
    if R.random() < 0.4:
        # the standard functions replaced or removed BEFORE the first compile of this environment
        flat = "".join(text.split())
        used_b = [n_ for n_ in ["length", "count", "value", "match", "search"] if n_ + "(" in flat]
        for n_ in (R.sample(used_b, min(len(used_b), R.randint(1, 2))) if used_b else R.sample(["length", "count", "value", "match", "search"], 1)):
            if R.random() < 0.35:
                env.function_extensions.pop(n_, None)
                sigs.pop(n_, None)
                steps.append({"configuration": "standard function %s removed before first use" % n_})
            else:
                params, ret = R.choice(list(R.choice(registries).values()))
                env.function_extensions[n_] = mon.Probe(n_, params, ret, impl_for(ret))
                sigs[n_] = (params, ret)
                steps.append({"configuration": "standard function %s replaced before first use by (%s)->%s" % (n_, ",".join(params), ret)})
        rec.feat("reconfigure:builtins-before-first-use")
    wt0, why0 = T.well_typed(q, sigs)
    rng0, whyr0 = T.in_range(q, lo, hi)
    o1 = mon.observe(env.compile, text)
    rec.monitor("M-compile")
    steps.append({"configuration": "initial", "bounds": list(b) if b else None, "compile": mon.describe_outcome(o1)[:80], "expected_valid": wt0 and rng0})
    if o1[0] == "exc":
        return ("reconfigured-environment:raises-" + type(o1[1]).__name__, {"query": text, "steps": steps})
    if (o1[0] == "ok") != (wt0 and rng0):
        return ("reconfigured-environment:" + ("rejects-valid" if wt0 and rng0 else "accepts-invalid"), {"query": text, "steps": steps, "why_invalid": why0 or whyr0})
    if R.random() < 0.3:
        # a copy of the configured environment gives the same verdicts as the environment it was copied from
        how = R.choice(["copy.copy", "copy.deepcopy"])
        try:
            env2 = _copy.copy(env) if how == "copy.copy" else _copy.deepcopy(env)
        except Exception:  # noqa: BLE001
            env2 = None
            rec.feat("reconfigure:environment-not-copyable")
        if env2 is not None:
            o2 = mon.observe(env2.compile, text)
            rec.monitor("M-compile")
            rec.feat("reconfigure:copied-environment")
            if (o2[0] == "ok") != (o1[0] == "ok") or o2[0] == "exc":
                steps.append({"configuration": how + " of the environment", "compile": mon.describe_outcome(o2)[:80], "expected_valid": wt0 and rng0})
                return ("reconfigured-environment:copy-disagrees", {"query": text, "steps": steps})
    for step in range(2):
        used = [n_ for n_ in user if n_ + "(" in text.replace(" ", "").replace("\n", "").replace("\t", "").replace("\r", "")] or list(user)
        if R.random() < 0.6 and used:
            n_ = R.choice(used)
            other = R.choice(registries)
            params, ret = R.choice(list(other.values()))
            env.function_extensions[n_] = mon.Probe(n_, params, ret, impl_for(ret))
            sigs[n_] = (params, ret)
            steps.append({"configuration": "re-registered %s as (%s)->%s" % (n_, ",".join(params), ret)})
            rec.feat("reconfigure:function")
        else:
            nb = R.choice([x for x in bounds_choices if x])
            env.min_int_index, env.max_int_index = nb
            lo, hi = nb
            steps.append({"configuration": "index range set to [%d, %d]" % nb})
            rec.feat("reconfigure:bounds")
        wt, why_t = T.well_typed(q, sigs)
        rng, why_r = T.in_range(q, lo, hi)
        want = wt and rng
        o = mon.observe(env.compile, text)
        rec.monitor("M-compile")
        steps[-1]["compile"] = mon.describe_outcome(o)[:80]
        steps[-1]["expected_valid"] = want
        if o[0] == "exc":
            return ("reconfigured-environment:raises-" + type(o[1]).__name__, {"query": text, "steps": steps})
        if (o[0] == "ok") != want:
            return ("reconfigured-environment:" + ("rejects-valid" if want else "accepts-invalid"), {"query": text, "steps": steps, "why_invalid": why_t or why_r})
    return None


def reason_class(s):
    import re
    s = re.sub(r"-?[0-9]+", "N", s or "")
    s = re.sub(r"\b(fn_N|fN|length|count|value|match|search|nope|undefined_fn|nullable|falsey|true_N|null_|trueish|t|n|lengthN|count_|vN_N_N|nulls|matches|valueof|searcher|falses|x_)\(\)", "F()", s)
    s = re.sub(r"'[^']*'", "'..'", s)
    return s[:70]


def finish(m, tier):
    cells = m["extra"].get("ledger", {})
    need = ["param:%s|%s" % (t, f) for t in TYPES for f in ("literal", "singular-query", "non-singular-query", "call->V", "call->L", "call->N", "logical-cmp", "logical-not", "logical-paren")]
    missing = [c for c in need if c not in cells]
    m["extra"]["ledger_required_cells"] = len(need)
    m["extra"]["ledger_missing_cells"] = missing
    m["extra"]["signatures_covered"] = len([k for k in m["features"] if k.startswith("signature:")])
    if missing:
        return ["ledger cells never observed: %s" % missing[:5]]
    return []


def replay(case, rec):
    rec.case("r1", True)
    rec.case("r2", True)
    user = {k: (tuple(p), r) for k, (p, r) in case["registry"].items()}
    b = case.get("bounds")
    attrs = {} if not b else {"min_int_index": b[0], "max_int_index": b[1]}
    env, probes = mon.make_env({n_: (p, r, impl_for(r)) for n_, (p, r) in user.items()}, attrs=attrs)
    o = mon.observe(env.compile, case["query"])
    rec.monitor("M-compile")
    if o[0] == "exc" or (o[0] == "ok") != case["expected_valid"] or any(p.calls for p in probes.values()):
        rec.violation("replay", dict(case, observed=mon.describe_outcome(o)))
