"""JSON value generators (values as json.load would produce them)."""
from __future__ import annotations

from .queries import names_of

LEAVES = [None, True, False, 0, 1, 2, -1, 1.0, 1.5, 0.0, -0.0, "", "a", "b", "ab", "é", "\U0001F600", [], {}, 10, 100, "1", "0",
          2**53, 2**53 + 1, -(2**53) - 1, 10**20, 1e16, 9007199254740992.0, 1e308, 5e-324, "e\u0301", "\u212a", "K", "k", "\u00df", "ss",
          "[1, 2]", "{\"a\": 1}", "hello"]


def near_misses(v):
    """Values easily confused with v."""
    out = []
    if isinstance(v, bool):
        out += [int(v), str(v).lower(), not v]
    elif isinstance(v, int):
        out += [float(v), str(v), v + 1, v - 1, bool(v) if v in (0, 1) else v, [v]]
    elif isinstance(v, float):
        out += [int(v) if v == int(v) else v, v + 0.5, str(v)]
    elif isinstance(v, str):
        out += [v + "x", v[:-1], v.upper(), [v], {"a": v}]
        if v.isdigit():
            out.append(int(v))
    elif v is None:
        out += ["null", 0, False, [], {}]
    return out


def gen_value(R, names, leaves, depth=0, maxdepth=4, maxwidth=4):
    r = R.random()
    if depth >= maxdepth or r < 0.40 - 0.1 * (depth == 0):
        v = R.choice(leaves)
        if isinstance(v, (list, dict)):
            return type(v)()  # fresh empty container
        return v
    if r < 0.70:
        return [gen_value(R, names, leaves, depth + 1, maxdepth, maxwidth) for _ in range(R.randint(0, maxwidth))]
    d = {}
    for _ in range(R.randint(0, maxwidth)):
        d[R.choice(names)] = gen_value(R, names, leaves, depth + 1, maxdepth, maxwidth)
    return d


SHAPES = ["many-empties", "wide-array", "wide-object", "deep-chain", "stringy", "root-scalar"]


def shaped_doc(R, names, leaves, shape, scale=1.0):
    """Documents of a particular overall shape (size / depth / type mix that the recursive generator rarely produces)."""
    def leaf():
        v = R.choice(leaves)
        return type(v)() if isinstance(v, (list, dict)) else v

    def small():
        return gen_value(R, names, leaves, 0, 2, 3)
    if shape == "many-empties":
        n = max(3, int(R.randint(60, 160) * scale))
        recs = []
        for i in range(n):
            rec = {R.choice(names): [], R.choice(names) + "_": {}}
            if i % 7 == 0:
                rec[R.choice(names)] = small()
            recs.append(rec if R.random() < 0.8 else [[], {}, leaf()])
        return recs if R.random() < 0.5 else {R.choice(names): recs, "z": leaf()}
    if shape == "wide-array":
        n = max(3, int(R.choice([R.randint(120, 300), 256, 256, 257, 300, 1000]) * scale))   # a few fixed sizes: equal-sized documents follow each other
        arr = [leaf() if R.random() < 0.8 else small() for _ in range(n)]
        return arr if R.random() < 0.5 else {R.choice(names): arr, R.choice(names) + "2": [arr[:3]]}
    if shape == "wide-object":
        d = {}
        for i in range(max(3, int(R.choice([R.randint(100, 200), 256, 256, 300]) * scale))):
            d[R.choice(["k%d" % i, str(i), str(-i), R.choice(names) + str(i)])] = leaf() if R.random() < 0.8 else small()
        for n_ in names[:6]:
            d[n_] = small()
        return d if R.random() < 0.5 else [d, small()]
    if shape == "deep-chain":
        depth = max(3, int(R.randint(30, 90) * scale))
        cur = small()
        for i in range(depth):
            if R.random() < 0.5:
                cur = [cur] if R.random() < 0.5 else [leaf(), cur]
            else:
                cur = {R.choice(names): cur}
                if R.random() < 0.3:
                    cur[R.choice(names)] = leaf()
        return cur
    if shape == "stringy":
        def sv(depth):
            r = R.random()
            if depth >= 3 or r < 0.5:
                return R.choice(["hello", "ab", "", "[1, 2]", "x", "0", "\U0001F600z"])
            if r < 0.75:
                return [sv(depth + 1) for _ in range(R.randint(0, 4))]
            return {R.choice(names): sv(depth + 1) for _ in range(R.randint(0, 4))}
        return sv(0) if R.random() < 0.3 else [sv(1), sv(1), sv(0)]
    # root-scalar: the query argument itself is a primitive (incl. strings that look like JSON text)
    return R.choice(["[1, 2]", "{\"a\": 1}", "hello", "", 0, 1, 1.5, True, False, None, "[\"[1]\"]", "{}", "[]", " [1]", "\"a\""])


def doc_for(R, q, maxdepth=4, maxwidth=4, extra_names=("a", "b", "c"), shapes=0.05, feat=None, shape_scale=1.0):
    info = names_of(q)
    names = list(info["names"]) * 3 + list(extra_names)
    # near-miss names: index-like names, case variants
    for i in info["indices"][:3]:
        names.append(str(i))
    for n in info["names"][:3]:
        if n:
            names.append(n.upper() if n.upper() != n else n.lower())
    leaves = list(LEAVES)
    for v in info["literals"]:
        leaves += [v, v, v]
        leaves += near_misses(v)
    leaves = [x for x in leaves if _jsonable(x)]
    if shapes and R.random() < shapes:
        shape = R.choice(SHAPES)
        if feat is not None:
            feat["doc-shape:" + shape] = feat.get("doc-shape:" + shape, 0) + 1
        return shaped_doc(R, names or ["a"], leaves, shape, shape_scale)
    doc = gen_value(R, names, leaves, 0, maxdepth, maxwidth)
    if R.random() < 0.85 and not isinstance(doc, (list, dict)):
        doc = [doc, gen_value(R, names, leaves, 1, maxdepth, maxwidth)]
    return doc


def _jsonable(x):
    if isinstance(x, float) and (x != x or x in (float("inf"), float("-inf"))):
        return False
    return True


def deep_copy(v):
    if isinstance(v, list):
        return [deep_copy(x) for x in v]
    if isinstance(v, dict):
        return {k: deep_copy(x) for k, x in v.items()}
    return v


def snapshot(v):
    """Structural snapshot including container identities, to detect mutation."""
    if isinstance(v, list):
        return ("L", id(v), tuple(snapshot(x) for x in v))
    if isinstance(v, dict):
        return ("D", id(v), tuple((k, snapshot(x)) for k, x in v.items()))
    return ("S", type(v).__name__, repr(v))


def short(v, n=160):
    import json
    try:
        s = json.dumps(v, ensure_ascii=True)
    except Exception:
        s = repr(v)
    return s if len(s) <= n else s[:n] + "..."
