"""AST-first query generation and lexical rendering.

The generator draws a derivation of the RFC 9535 grammar as an AST (see vf.oracle.sem
for the AST shape); the renderer turns an AST into text, choosing every optional
lexical alternative (blank space at each optional-S site, quote style, escape
spellings, shorthand vs bracket notation, number spellings) and recording which
alternatives were used in a feature ledger (a Counter).
"""
from __future__ import annotations

import math
import re

from ..oracle.sem import V, L, N, BUILTIN_SIGS, is_singular
from ..oracle import strings as S

# patterns that are not (clean) I-Regexps: a query using them as string literals is still a valid query
HOSTILE_PATTERNS = ["a{2,1}", "[z-a]", "(", ")", "[", "\\d+", "(?i)a", "a**", "\\", "[a-]]", "a{99999}", "\\p{Xx}", "^a$", "[^]", "(a|b", "a{,2}", "*", "+?", "\\u0061"]

HOSTILE_NAMES = [
    "a", "b", "c", "d e", "", "0", "1", "-1", "length", "é", "a'b", 'q"r', "x\\y", "\n", "\x00",
    "\x1f", "\x7f", "\U0001F600", "A", "ä", "*", "$", "@", "a.b", "true", "null", "_", "a1", "ab",
    " ", "／", "a/b", "\t", "ÿ", "퟿", "", "￿", "\U00010000", "\U0010ffff",
    # a non-BMP character followed by more text, names ending in a backslash, runs of blanks inside a name, lone quotes
    "\U0001F600x", "a\U0001F600b", "\\", "a\\", "x\\\\", "a  b", "'", '"', "\\'", '\\"',
    # look-alikes: decomposed vs precomposed, full-width, invisible and blank-like characters, number-like names
    "e\u0301", "\u00e9", "\uff11", "\uff41", "\u200b", "\ufeff", "\u0085", "\u00a0", "\u2029", "1e2", "0x1", "-0", " a", "a ", "01", "1.0", "+1", "E", "\u0130", "\u0131", "\u00df", "ss", "\u212a", "k", "K",
    # every single-character escape and its neighbours, C1 controls, singletons that normalisation would rewrite
    "\b", "\f", "\r", "a\bb", "\f\b", "\x0b", "\x0e", "\x80", "\x9f", "\u2126", "\u03a9", "\u212b", "\u00c5", "\u1100\u1161", "\uac00", "A\u030a",
]
PLAIN_NAMES = ["a", "b", "c", "d", "ab", "_x", "a1", "é", "\U0001F600"]

SH = re.compile(r"^[A-Za-z_\u0080-퟿-\U0010ffff][0-9A-Za-z_\u0080-퟿-\U0010ffff]*$")

BLANKS = [" ", "\t", "\n", "\r", "\r\n", "  ", " \n\t"]
BLANK_TAG = {" ": "SP", "\t": "HT", "\n": "LF", "\r": "CR", "\r\n": "CRLF", "  ": "SPSP", " \n\t": "MIX"}

LIT_POOL = [None, True, False, 0, 1, 2, -1, 10, 100, 1.5, -0.5, 0.0, 1.0, 2.5e10, 1e15, 123456789012, 0.1, 0.30000000000000004, -1e-7, 1e-300, 5e-324,
            1e21, 1e22, 255, 256, 65535, 65536, 2147483647, 2147483648, 4294967296, 9007199254740991, -9007199254740991, "", "a", "b", "ab", "é",
            "e\u0301", "\u212a", "K", "\u00df", "SS",
            "\U0001F600", "A", "a'b", 'q"r', "1", "true", "null", "\n", "a\\", "\\", "\U0001F600x", "a  b"]

MAX_SAFE = 2**53 - 1


class Cfg:
    def __init__(self, **kw):
        self.names = PLAIN_NAMES + HOSTILE_NAMES
        self.filters = True
        self.registry = dict(BUILTIN_SIGS)   # name -> (params, ret)
        self.max_segments = 3
        self.max_selectors = 3
        self.max_depth = 3                   # filter nesting depth
        self.functions = True
        self.regex_functions = False         # match/search need the I-Regexp oracle; opt-in
        self.indices = [0, 1, 2, -1, -2, 3, 5, -5, 10, 100, 105, 1000, -100, 20, 101]
        self.regex_pool = ["a", "a.*", ".", "[ab]+", "a|b", ".*b", "\\p{L}*", "[^a]", "(ab)?", "a{2}", "", "1"]
        self.big_ints = False
        self.lit_pool = LIT_POOL
        self.desc_p = 0.25
        for k, v in kw.items():
            setattr(self, k, v)


class QGen:
    def __init__(self, R, cfg=None):
        self.R = R
        self.cfg = cfg or Cfg()

    # -- selectors / segments / queries
    def name(self):
        return self.R.choice(self.cfg.names)

    def index(self):
        R = self.R
        if self.cfg.big_ints and R.random() < 0.1:
            return R.choice([MAX_SAFE, -MAX_SAFE, MAX_SAFE - 1, 2**31, -2**31, 2**32 + 1])
        return R.choice(self.cfg.indices)

    def slice(self):
        R = self.R

        def part(opts):
            if R.random() < 0.35:
                return None
            if self.cfg.big_ints and R.random() < 0.1:
                return R.choice([MAX_SAFE, -MAX_SAFE])
            return R.choice(opts)
        return ("slice", part([0, 1, 2, -1, -2, 3, 5, -5]), part([0, 1, 2, -1, -2, 3, 5, -5]),
                part([1, 2, -1, -2, 3, -3, 0]))

    def selector(self, depth, nofilter=False):
        r = self.R.random()
        if r < 0.30:
            return ("name", self.name())
        if r < 0.45:
            return ("idx", self.index())
        if r < 0.60:
            return self.slice()
        if r < 0.75 or nofilter or not self.cfg.filters or depth >= self.cfg.max_depth:
            return ("wild",)
        return ("filter", self.expr(depth + 1))

    def segment(self, depth, nofilter=False):
        R = self.R
        kind = "desc" if R.random() < self.cfg.desc_p else "child"
        n = R.choice([1, 1, 1, 1, 2, 2, 3][: 4 + self.cfg.max_selectors])
        sels = []
        for _ in range(n):
            if sels and R.random() < 0.15:
                sels.append(R.choice(sels))  # repeated selector
            else:
                sels.append(self.selector(depth, nofilter))
        return (kind, tuple(sels))

    def query(self, depth=0, root=None, nofilter=False, maxseg=None):
        R = self.R
        maxseg = self.cfg.max_segments if maxseg is None else maxseg
        return ("q", root or R.choice("$@"), tuple(self.segment(depth, nofilter) for _ in range(R.randint(0, maxseg))))

    def singular(self, root=None):
        R = self.R
        segs = []
        for _ in range(R.choice([0, 1, 1, 1, 2, 2, 3])):
            if R.random() < 0.7:
                segs.append(("child", (("name", self.name()),)))
            else:
                segs.append(("child", (("idx", self.index()),)))
        return ("q", root or R.choice("@@@$"), tuple(segs))

    # -- filter expressions
    def literal(self):
        return ("lit", self.R.choice(self.cfg.lit_pool))

    def funcs_returning(self, types):
        if not self.cfg.functions:
            return []
        out = []
        for n_, (params, ret) in self.cfg.registry.items():
            if ret in types:
                if n_ in ("match", "search") and not self.cfg.regex_functions:
                    continue
                out.append(n_)
        return sorted(out)

    def comparable(self, depth):
        R = self.R
        r = R.random()
        fs = self.funcs_returning((V,))
        if r < 0.40:
            return self.literal()
        if r < 0.80 or not fs or depth >= self.cfg.max_depth + 1:
            return self.singular()
        return self.call(R.choice(fs), depth + 1)

    def call(self, name, depth):
        params, _ = self.cfg.registry[name]
        if name in ("match", "search"):
            return ("call", name, (self.value_arg(depth), self.regex_arg(depth)))
        return ("call", name, tuple(self.arg(t, depth) for t in params))

    def regex_arg(self, depth):
        R = self.R
        if R.random() < 0.7:
            return ("lit", R.choice(self.cfg.regex_pool))
        return self.singular()

    def value_arg(self, depth):
        R = self.R
        r = R.random()
        fs = self.funcs_returning((V,))
        if r < 0.25:
            return self.literal()
        if r < 0.85 or not fs or depth >= self.cfg.max_depth + 1:
            return self.singular()
        return self.call(R.choice(fs), depth + 1)

    def arg(self, t, depth):
        R = self.R
        deep = depth >= self.cfg.max_depth + 1
        if t == V:
            return self.value_arg(depth)
        if t == N:
            fs = self.funcs_returning((N,))
            if fs and not deep and R.random() < 0.25:
                return self.call(R.choice(fs), depth + 1)
            return self.query(depth, nofilter=depth >= self.cfg.max_depth, maxseg=2)
        # LogicalType
        r = R.random()
        fs = self.funcs_returning((L, N))
        if r < 0.35:
            return self.query(depth, nofilter=depth >= self.cfg.max_depth, maxseg=2)
        if r < 0.5 and fs and not deep:
            return self.call(R.choice(fs), depth + 1)
        e = self.expr(depth + 1)
        if e[0] == "test":
            return e[1]
        return e

    def test(self, depth):
        R = self.R
        fs = self.funcs_returning((L, N))
        if fs and R.random() < 0.2 and depth <= self.cfg.max_depth:
            return ("test", self.call(R.choice(fs), depth + 1))
        return ("test", self.query(depth, nofilter=depth >= self.cfg.max_depth, maxseg=2))

    def expr(self, depth):
        R = self.R
        r = R.random()
        if depth > self.cfg.max_depth:
            r = r * 0.6
        if r < 0.30:
            return self.test(depth)
        if r < 0.60:
            return ("cmp", R.choice(["==", "!=", "<", "<=", ">", ">="]), self.comparable(depth), self.comparable(depth))
        if r < 0.70:
            inner = self.test(depth) if R.random() < 0.5 else ("paren", self.expr(depth + 1))
            return ("not", inner)
        if r < 0.80:
            return ("paren", self.expr(depth + 1))
        op = R.choice(["and", "or"])
        items = []
        for _ in range(R.randint(2, 3)):
            e = self.expr(depth + 1)
            if e[0] == "or" or e[0] == op:
                e = ("paren", e)
            items.append(e)
        return (op, tuple(items))


# ---------------------------------------------------------------------------
# rendering

class Style:
    """Lexical choices for one rendering."""

    def __init__(self, R, ws=None, feat=None, canonical=False):
        self.R = R
        self.feat = feat
        self.canonical = canonical
        if ws is None:
            ws = R.choice(["none", "none", "sparse", "sparse", "dense"])
        self.ws_p = {"none": 0.0, "sparse": 0.2, "dense": 0.75, "all": 1.0}[ws]
        self.ws_mode = ws
        self.shorthand_p = R.choice([0.0, 0.6, 1.0])
        self.escape_p = R.choice([0.0, 0.1, 0.5])
        self.quote = R.choice(["'", '"', None])
        self.num_alt_p = R.choice([0.0, 0.3, 0.8])
        self.force_blank = None     # (site, blank) -> only that site gets that blank

    def tag(self, t):
        if self.feat is not None:
            self.feat[t] += 1

    def s(self, site):
        """Optional blank space at an optional-S site."""
        if self.canonical:
            return ""
        if self.force_blank is not None:
            fsite, blank = self.force_blank
            if fsite == site or fsite == "*":
                self.tag("ws:%s:%s" % (site, BLANK_TAG.get(blank, "other")))
                return blank
            return ""
        if self.ws_p and self.R.random() < self.ws_p:
            b = self.R.choice(BLANKS)
            self.tag("ws:%s:%s" % (site, BLANK_TAG[b]))
            return b
        self.tag("ws:%s:none" % site)
        return ""


def render_string(st, s):
    R = st.R
    q = st.quote or R.choice("'\"")
    if st.canonical:
        q = "'"
    st.tag("quote:" + ("single" if q == "'" else "double"))
    out = []
    for ch in s:
        opts = S.spellings(ch, q)
        raw = [o for o in opts if o[0] == "raw"]
        if st.canonical:
            out.append(S.canonical_spelling(ch))
            continue
        if raw and R.random() >= st.escape_p:
            tag, text = raw[0]
        else:
            nonraw = [o for o in opts if o[0] != "raw"] or opts
            tag, text = R.choice(nonraw)
        st.tag("str:" + tag)
        out.append(text)
    return q + "".join(out) + q


def number_spellings(v):
    """Alternative spellings of a number whose float/int value equals v exactly."""
    out = []
    if isinstance(v, bool):
        return out
    if isinstance(v, int):
        out.append(("int", str(v)))
        if v == 0:
            out += [("negzero", "-0"), ("zero-exp", "0e0"), ("zero-exp", "0E5"), ("zero-frac", "0.0"), ("negzero-frac", "-0.0"),
                    ("zero-exp", "0e-3"), ("zero-exp", "0e+1")]
        else:
            if abs(v) < 10**15:
                out.append(("frac0", "%d.0" % v))
                out.append(("exp0", "%de0" % v))
                out.append(("exp0", "%dE+0" % v))
                out.append(("frac0", "%d.000" % v))
            if v % 10 == 0:
                m, e = v, 0
                while m % 10 == 0 and m != 0:
                    m //= 10
                    e += 1
                out += [("exp", "%de%d" % (m, e)), ("exp", "%dE%d" % (m, e)), ("exp", "%de+%d" % (m, e)), ("exp", "%de0%d" % (m, e))]
            if abs(v) < 10**6:
                out.append(("negexp", "%d0e-1" % v))
                out.append(("negexp", "%d00E-02" % v))
    else:
        if v != v or v in (float("inf"), float("-inf")):
            return out
        r = repr(v)
        if "e" not in r and "E" not in r and "inf" not in r and "nan" not in r:
            out.append(("float", r))
            out.append(("float-exp0", r + "e0"))
            out.append(("float-exp0", r + "E-0"))
            out.append(("float-pad", r + "00"))
        else:
            # exponent form from repr: mantissa may lack a fraction (1e+16); valid as number
            m = re.match(r"^(-?\d+)(\.\d+)?e([-+]?\d+)$", r)
            if m:
                out.append(("float-e", r))
                out.append(("float-E", r.replace("e", "E")))
                # the same value with an unpadded exponent, with an explicit fraction, and written out in full
                e_ = int(m.group(3))
                out.append(("float-e-unpadded", "%s%se%d" % (m.group(1), m.group(2) or "", e_)))
                out.append(("float-e-fraction", "%s%se%d" % (m.group(1), m.group(2) or ".0", e_)))
                if -12 <= e_ < 0:
                    from decimal import Decimal
                    out.append(("float-plain", format(Decimal(r), "f")))
                elif 0 <= e_ <= 22 and not m.group(2):
                    out.append(("float-plain-int", m.group(1) + "0" * e_ + ".0"))
    good = []
    for tag, text in out:
        try:
            f = float(text)
        except (ValueError, OverflowError):
            continue
        if f == v and (v != 0 or True):
            good.append((tag, text))
    return good


def render_number(st, v):
    opts = number_spellings(v)
    if not opts:
        raise ValueError("unrenderable number %r" % (v,))
    if st.canonical or st.R.random() >= st.num_alt_p:
        tag, text = opts[0]
    else:
        tag, text = st.R.choice(opts)
    st.tag("num:" + tag)
    return text


def render_literal(st, v):
    if v is None:
        return "null"
    if v is True:
        return "true"
    if v is False:
        return "false"
    if isinstance(v, str):
        return render_string(st, v)
    return render_number(st, v)


def render_selector(st, s):
    k = s[0]
    if k == "name":
        st.tag("sel:name")
        return render_string(st, s[1])
    if k == "idx":
        st.tag("sel:index" + ("-neg" if s[1] < 0 else ""))
        return str(s[1])
    if k == "slice":
        a, b, c = s[1:]
        st.tag("sel:slice:%s%s%s" % ("s" if a is not None else "-", "e" if b is not None else "-", "t" if c is not None else "-"))
        t = ("" if a is None else str(a) + st.s("slice-after-start")) + ":" + st.s("slice-after-colon1")
        t += "" if b is None else str(b) + st.s("slice-after-end")
        if c is not None:
            t += ":" + st.s("slice-after-colon2") + str(c)
        elif not st.canonical and st.R.random() < 0.3:
            st.tag("sel:slice:trailing-colon")
            t += ":"
        return t
    if k == "wild":
        st.tag("sel:wild")
        return "*"
    if k == "filter":
        st.tag("sel:filter")
        return "?" + st.s("filter-after-q") + render_expr(st, s[1])
    raise ValueError(s)


def render_segment(st, seg, singular=False):
    kind, sels = seg
    pre = ".." if kind == "desc" else ""
    R = st.R
    if not st.canonical and len(sels) == 1:
        if sels[0][0] == "name" and SH.match(sels[0][1]) and R.random() < st.shorthand_p:
            st.tag("seg:%s-shorthand-name" % kind)
            return (pre or ".") + sels[0][1]
        if sels[0][0] == "wild" and R.random() < st.shorthand_p:
            st.tag("seg:%s-shorthand-wild" % kind)
            return (pre or ".") + "*"
    st.tag("seg:%s-bracket%d" % (kind, min(len(sels), 3)))
    if singular:
        # singular-query segments: no blank space inside the brackets (strict ABNF).
        # (A non-singular query in comparand position is rendered completely: it must be rejected.)
        return pre + "[" + ",".join(render_selector(st, s) for s in sels) + "]"
    body = (st.s("sel-before-comma") + "," + st.s("sel-after-comma")).join(render_selector(st, s) for s in sels) \
        if len(sels) > 1 else render_selector(st, sels[0])
    return pre + "[" + st.s("bracket-after-open") + body + st.s("bracket-before-close") + "]"


def render_query(st, q, singular=False):
    return q[1] + "".join(st.s("before-segment") + render_segment(st, s, singular) for s in q[2])


def render_comparable(st, e):
    if e[0] == "lit":
        st.tag("cmp:literal")
        return render_literal(st, e[1])
    if e[0] == "q":
        st.tag("cmp:singular-%s" % ("rel" if e[1] == "@" else "abs"))
        return render_query(st, e, True)
    st.tag("cmp:call")
    return render_call(st, e)


def render_call(st, e):
    st.tag("call:%d-args" % len(e[2]))
    args = (st.s("arg-before-comma") + "," + st.s("arg-after-comma")).join(render_arg(st, a) for a in e[2])
    return e[1] + "(" + st.s("call-after-open") + args + st.s("call-before-close") + ")"


def render_arg(st, a):
    k = a[0]
    if k == "q":
        st.tag("arg:query")
        return render_query(st, a)
    if k == "lit":
        st.tag("arg:literal")
        return render_literal(st, a[1])
    if k == "call":
        st.tag("arg:call")
        return render_call(st, a)
    st.tag("arg:logical-" + k)
    return render_expr(st, a)


def render_expr(st, e):
    k = e[0]
    if k == "or":
        st.tag("expr:or")
        return (st.s("before-or") + "||" + st.s("after-or")).join(render_expr(st, x) for x in e[1])
    if k == "and":
        st.tag("expr:and")
        return (st.s("before-and") + "&&" + st.s("after-and")).join(render_expr(st, x) for x in e[1])
    if k == "not":
        st.tag("expr:not-" + e[1][0])
        return "!" + st.s("after-not") + render_expr(st, e[1])
    if k == "paren":
        st.tag("expr:paren")
        return "(" + st.s("paren-after-open") + render_expr(st, e[1]) + st.s("paren-before-close") + ")"
    if k == "cmp":
        st.tag("expr:cmp" + e[1])
        return render_comparable(st, e[2]) + st.s("before-cmp-op") + e[1] + st.s("after-cmp-op") + render_comparable(st, e[3])
    if k == "test":
        x = e[1]
        if x[0] == "q":
            st.tag("expr:test-%s" % ("rel" if x[1] == "@" else "abs"))
            return render_query(st, x)
        st.tag("expr:test-call")
        return render_call(st, x)
    raise ValueError(e)


def render(ast, R, ws=None, feat=None, canonical=False, style=None):
    st = style or Style(R, ws=ws, feat=feat, canonical=canonical)
    return render_query(st, ast)


# ---------------------------------------------------------------------------
# helpers

def names_of(q, out=None):
    """Member names and indices mentioned anywhere in the query."""
    if out is None:
        out = {"names": [], "indices": [], "literals": []}

    def ex(e):
        k = e[0]
        if k in ("or", "and"):
            for x in e[1]:
                ex(x)
        elif k in ("not", "paren", "test"):
            ex(e[1])
        elif k == "cmp":
            ex(e[2])
            ex(e[3])
        elif k == "q":
            names_of(e, out)
        elif k == "call":
            for a in e[2]:
                ex(a)
        elif k == "lit":
            out["literals"].append(e[1])

    for _, sels in q[2]:
        for s in sels:
            if s[0] == "name":
                out["names"].append(s[1])
            elif s[0] == "idx":
                out["indices"].append(s[1])
            elif s[0] == "filter":
                ex(s[1])
    return out


def representable_literals(q):
    """All number literals exactly representable and renderable."""
    from ..oracle.typing import literals_of
    for v in literals_of(q):
        if isinstance(v, bool) or not isinstance(v, (int, float)):
            continue
        if isinstance(v, int) and abs(v) > MAX_SAFE:
            return False
        if isinstance(v, float) and (math.isinf(v) or math.isnan(v)):
            return False
        if not number_spellings(v):
            return False
    return True


def representable(q):
    """All number literals exactly representable and renderable (C03/C06/C12 domain)."""
    from ..oracle.typing import literals_of, ints_of
    for v in literals_of(q):
        if isinstance(v, bool) or not isinstance(v, (int, float)):
            continue
        if isinstance(v, int) and abs(v) > MAX_SAFE:
            return False
        if isinstance(v, float) and (math.isinf(v) or math.isnan(v)):
            return False
        if not number_spellings(v):
            return False
    for i in ints_of(q):
        if abs(i) > MAX_SAFE:
            return False
    return True
