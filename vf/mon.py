"""Monitors attached to the REAL code (public API boundary) and shared helpers."""
from __future__ import annotations

import random

import jsonpath_rfc9535 as jp
from jsonpath_rfc9535 import JSONPathEnvironment, JSONPathError, JSONPathNodeList
from jsonpath_rfc9535.function_extensions import ExpressionType, FilterFunction

from .oracle import sem
from .oracle.sem import V, L, N, NOTHING

TYPEMAP = {V: ExpressionType.VALUE, L: ExpressionType.LOGICAL, N: ExpressionType.NODES}


def sig(nodes):
    """Observable identity of a nodelist: locations and the identity of each value object."""
    return [(tuple(n.location), id(n.value)) for n in nodes]


def want_sig(pairs):
    return [(tuple(l), id(v)) for l, v in pairs]


def observe(fn, *args):
    """Call-and-return/raise record at the API boundary."""
    try:
        r = fn(*args)
        return ("ok", r)
    except JSONPathError as e:
        return ("jperr", e)
    except RecursionError as e:
        return ("exc", e)
    except Exception as e:  # noqa: BLE001
        return ("exc", e)


def describe_outcome(o):
    k, v = o
    if k == "ok":
        return "ok"
    return "%s:%s:%s" % (k, type(v).__name__, _safe_str(v)[:160])


def _safe_str(e):
    try:
        return str(e)
    except Exception as e2:  # noqa: BLE001
        return "<str() raised %s>" % type(e2).__name__


def locs_only(s):
    return [list(l) for l, _ in s]


# ---------------------------------------------------------------------------
# probe functions: user-registered FilterFunction instances with scripted behaviour

class Probe(FilterFunction):
    """A registered function extension that records exactly what it is called with."""

    def __init__(self, name, params, ret, impl):
        self._name = name
        self._params = params
        self._ret = ret
        self.impl = impl
        self.calls = []
        self.arg_types_ = [TYPEMAP[p] for p in params]
        self.return_type_ = TYPEMAP[ret]

    @property
    def arg_types(self):
        return self.arg_types_

    @property
    def return_type(self):
        return self.return_type_

    def __call__(self, *args):
        self.calls.append(args)
        return self.impl(*args)


def to_real(v, ret, root_nodes=None):
    """Convert an oracle-level function result to what a real function would return."""
    if ret == N:
        return JSONPathNodeList(v)
    if v is NOTHING:
        return jp.NOTHING
    return v


def make_env(registry=None, base=JSONPathEnvironment, attrs=None, keep_builtins=True):
    """A fresh environment subclass instance with the given probe registry.

    registry: name -> (params, ret, real_impl)
    """
    attrs = dict(attrs or {})
    cls = type("VfEnv", (base,), attrs)
    env = cls()
    if not keep_builtins:
        env.function_extensions.clear()
    probes = {}
    for name, (params, ret, impl) in (registry or {}).items():
        p = Probe(name, params, ret, impl)
        env.function_extensions[name] = p
        probes[name] = p
    return env, probes


def seeded(seed, *parts):
    return random.Random("%s|%s" % (seed, "|".join(str(p) for p in parts)))
