"""Monitors attached to the REAL code (public API boundary) and shared helpers."""
from __future__ import annotations

import random

import jsonpath_rfc9535 as jp
from jsonpath_rfc9535 import JSONPathEnvironment, JSONPathError, JSONPathNodeList
from jsonpath_rfc9535.function_extensions import ExpressionType, FilterFunction

from .oracle import sem
from .oracle.sem import V, L, N, NOTHING

TYPEMAP = {V: ExpressionType.VALUE, L: ExpressionType.LOGICAL, N: ExpressionType.NODES}


def sig(nodes):
    """Observable identity of a nodelist: locations and the identity of each value object."""
    # read back to front: nothing may depend on the order in which a caller looks at the nodes
    out = [None] * len(nodes)
    for i in range(len(nodes) - 1, -1, -1):
        out[i] = (tuple(nodes[i].location), id(nodes[i].value))
    return out


def want_sig(pairs):
    return [(tuple(l), id(v)) for l, v in pairs]


def _plain(fn, args):
    try:
        r = fn(*args)
        return ("ok", r)
    except JSONPathError as e:
        return ("jperr", e)
    except RecursionError as e:
        return ("exc", e)
    except Exception as e:  # noqa: BLE001
        return ("exc", e)


# --- host conditions ------------------------------------------------------------------------------------------------
# The same call must mean the same thing whatever the host application does around it. With small seeded probabilities a
# call observed through observe() is therefore made (a) from a fresh non-main thread, (b) from a deep call stack
# (possibly with a raised recursion limit), and (c) a compiled query it returns is replaced by a deep copy / pickle
# round trip of itself. None of this changes what the callers expect: they compare the outcome with their oracle as
# usual. Running out of interpreter stack under (b) is a host limit, not an outcome: the call is then repeated plainly.
HOST = {"rng": None, "p_thread": 0.0, "p_deep": 0.0, "p_copy": 0.0, "busy": False, "counts": {}, "last": None, "force": None}
DEPTHS = [300, 600, 750, 850, 900, 930, 950, 965]


def host_init(seed, p_thread=0.01, p_deep=0.01, p_copy=0.01):
    HOST.update(rng=random.Random("host|%s" % (seed,)), p_thread=p_thread, p_deep=p_deep, p_copy=p_copy, busy=False, counts={})


def _count(k):
    HOST["counts"][k] = HOST["counts"].get(k, 0) + 1


def in_thread(fn, args=(), stack_mb=None):
    """Outcome of fn(*args) executed in a fresh non-main thread."""
    import threading
    box = []
    old = None
    if stack_mb:
        old = threading.stack_size(stack_mb * 1024 * 1024)
    try:
        t = threading.Thread(target=lambda: box.append(_plain(fn, args)), daemon=True)
        t.start()
    finally:
        if stack_mb:
            threading.stack_size(old)
    t.join()
    return box[0] if box else ("exc", RuntimeError("thread produced no outcome"))


def _descend(n, fn, args):
    if n <= 0:
        return _plain(fn, args)
    return _descend(n - 1, fn, args)


def at_depth(fn, args=(), depth=900, limit=None):
    """Outcome of fn(*args) called from `depth` additional frames; limit = recursion limit to set meanwhile (in a
    thread with a large stack). ("ran-out", exc) when the interpreter stack was exhausted."""
    import sys
    if limit is None:
        try:
            o = _descend(depth, fn, args)
        except RecursionError as e:   # raised by the descent itself
            return ("ran-out", e)
    else:
        def work():
            old = sys.getrecursionlimit()
            sys.setrecursionlimit(limit)
            try:
                try:
                    return _descend(depth, fn, args)
                except RecursionError as e:
                    return ("ran-out", e)
            finally:
                sys.setrecursionlimit(old)
        o = in_thread(work, (), stack_mb=512)
        if o[0] == "ok":
            o = o[1]
        elif o[0] == "exc" and isinstance(o[1], RecursionError):
            return ("ran-out", o[1])
    if o[0] == "exc" and isinstance(o[1], (RecursionError, MemoryError)):
        return ("ran-out", o[1])
    return o


def _maybe_copy(o, how=None):
    if o[0] != "ok" or type(o[1]).__name__ != "JSONPathQuery":
        return o
    import copy
    import pickle
    how = how or HOST["rng"].choice(["deepcopy", "pickle"])
    HOST["last"] = ("compiled query replaced by its copy", how)
    try:
        c = copy.deepcopy(o[1]) if how == "deepcopy" else pickle.loads(pickle.dumps(o[1]))
    except Exception:  # noqa: BLE001
        _count("host:copy-of-compiled-query-not-possible:" + how)
        return o
    _count("host:compiled-query-replaced-by-" + how)
    return ("ok", c)


def depth_band(fn, args=(), depths=range(500, 990, 15)):
    """Outcomes of fn(*args) called from each of the given stack depths (those that ran out of stack are left out)."""
    out = []
    for d in depths:
        o = at_depth(fn, args, depth=d)
        if o[0] != "ran-out":
            out.append((d, o))
    return out


class forced:
    """Context manager: every observe() inside applies the given host condition (used to reproduce / minimise a witness)."""

    def __init__(self, cond):
        self.cond = cond

    def __enter__(self):
        self.old = HOST["force"]
        HOST["force"] = self.cond
        return self

    def __exit__(self, *a):
        HOST["force"] = self.old
        return False


def _forced(cond, fn, args):
    if cond[0] == "called from another thread":
        return in_thread(fn, args)
    if cond[0] == "called from a deep stack":
        o = at_depth(fn, args, depth=cond[1], limit=cond[2])
        if o[0] == "ran-out":
            o2 = _plain(fn, args)
            if cond[2] is not None and not (o2[0] == "exc" and isinstance(o2[1], RecursionError)):
                return ("exc", o[1])
            return o2
        return o
    return _copy_mode(fn, args, cond[1])


def _copy_mode(fn, args, how):
    """compile() results are replaced by a copy of themselves; find/finditer/find_one given a query TEXT are carried out as
    compile -> copy -> the same method of the copy (the documented meaning of those entry points)."""
    owner = getattr(fn, "__self__", None)
    name = getattr(fn, "__name__", "")
    if name in ("find", "finditer", "find_one") and len(args) == 2 and isinstance(args[0], str) and hasattr(owner, "compile"):
        def via_copy():
            c = _maybe_copy(("ok", owner.compile(args[0])), how)[1]
            return getattr(c, name)(args[1])
        return _plain(via_copy, ())
    return _maybe_copy(_plain(fn, args), how)


def observe(fn, *args):
    """Call-and-return/raise record at the API boundary (see 'host conditions' above)."""
    h = HOST
    if h["busy"]:
        return _plain(fn, args)
    if h["force"] is not None:
        h["busy"] = True
        try:
            return _forced(h["force"], fn, args)
        finally:
            h["busy"] = False
    h["last"] = None
    if h["rng"] is None:
        return _plain(fn, args)
    r = h["rng"].random()
    if r >= h["p_thread"] + h["p_deep"] + h["p_copy"]:
        return _plain(fn, args)
    h["busy"] = True
    try:
        if r < h["p_thread"]:
            _count("host:called-from-another-thread")
            h["last"] = ("called from another thread",)
            return in_thread(fn, args)
        if r < h["p_thread"] + h["p_deep"]:
            if h["rng"].random() < 0.15:
                d_, l_ = h["rng"].choice([3000, 6000, 12000]), h["rng"].choice([20000, 50000])
                tag = "host:called-from-deep-stack-with-raised-limit"
            else:
                d_, l_ = h["rng"].choice(DEPTHS), None
                tag = "host:called-from-deep-stack"
            o = at_depth(fn, args, depth=d_, limit=l_)
            if o[0] == "ran-out":
                _count(tag + ":ran-out-of-stack(repeated plainly)")
                o2 = _plain(fn, args)
                if l_ is not None and not (o2[0] == "exc" and isinstance(o2[1], RecursionError)):
                    # thousands of frames of head-room were not enough for a call that succeeds plainly within 1000
                    h["last"] = ("called from a deep stack", d_, l_)
                    return ("exc", o[1])
                return o2
            _count(tag)
            h["last"] = ("called from a deep stack", d_, l_)
            return o
        return _copy_mode(fn, args, None)
    finally:
        h["busy"] = False


def describe_outcome(o):
    k, v = o
    if k == "ok":
        return "ok"
    return "%s:%s:%s" % (k, type(v).__name__, _safe_str(v)[:160])


def _safe_str(e):
    try:
        return str(e)
    except Exception as e2:  # noqa: BLE001
        return "<str() raised %s>" % type(e2).__name__


def locs_only(s):
    return [list(l) for l, _ in s]


# ---------------------------------------------------------------------------
# probe functions: user-registered FilterFunction instances with scripted behaviour

class Probe(FilterFunction):
    """A registered function extension that records exactly what it is called with."""

    def __init__(self, name, params, ret, impl):
        self._name = name
        self._params = params
        self._ret = ret
        self.impl = impl
        self.calls = []
        self.arg_types_ = [TYPEMAP[p] for p in params]
        self.return_type_ = TYPEMAP[ret]

    @property
    def arg_types(self):
        return self.arg_types_

    @property
    def return_type(self):
        return self.return_type_

    def __call__(self, *args):
        self.calls.append(args)
        return self.impl(*args)


def _builtin_bases():
    from jsonpath_rfc9535 import function_extensions as fe
    return {((N,), V): [fe.Count, fe.Value], ((V,), V): [fe.Length], ((V, V), L): [fe.Match, fe.Search]}


_BUILTIN_BASES = _builtin_bases()


def to_real(v, ret, root_nodes=None):
    """Convert an oracle-level function result to what a real function would return."""
    if ret == N:
        return JSONPathNodeList(v)
    if v is NOTHING:
        return jp.NOTHING
    return v


def make_env(registry=None, base=JSONPathEnvironment, attrs=None, keep_builtins=True, bases=None):
    """A fresh environment subclass instance with the given probe registry.

    registry: name -> (params, ret, real_impl)
    """
    attrs = dict(attrs or {})
    cls = type("VfEnv", (base,), attrs)
    env = cls()
    if not keep_builtins:
        env.function_extensions.clear()
    probes = {}
    for name, (params, ret, impl) in (registry or {}).items():
        # user functions may well be written as subclasses of the standard function classes (overriding __call__): every
        # second probe whose signature equals a standard function's is one
        cands = _BUILTIN_BASES.get((tuple(params), ret), [])
        if bases and name in bases:
            p = type("Probe_%s" % bases[name].__name__, (Probe, bases[name]), {})(name, params, ret, impl)
        elif cands and sum(map(ord, name)) % 2 == 0:
            b_ = cands[(sum(map(ord, name)) // 2) % len(cands)]
            p = type("Probe_%s" % b_.__name__, (Probe, b_), {})(name, params, ret, impl)
        else:
            p = Probe(name, params, ret, impl)
        env.function_extensions[name] = p
        probes[name] = p
    return env, probes


def seeded(seed, *parts):
    return random.Random("%s|%s" % (seed, "|".join(str(p) for p in parts)))
