"""Shared helper for the concurrent parts of checks: N threads over shared objects, GIL hand-offs injected on package lines."""
from __future__ import annotations

import os
import sys
import threading


def run_threads(jp, seed, nthreads, work, p_yield=0.2, join_s=120):
    """work(k) is run in thread k (k = 0..nthreads-1) after a common barrier. Returns (hung, switches, switch_sites, errors)."""
    from .checks.c16 import YieldInjector
    pkg = os.path.dirname(os.path.abspath(jp.__file__))
    inj = YieldInjector(pkg, seed, p_yield)
    barrier = threading.Barrier(nthreads)
    errors = []

    def runner(k):
        try:
            barrier.wait()
            work(k)
        except BaseException as e:  # noqa: BLE001
            errors.append((k, type(e).__name__, str(e)[:200]))
    old = sys.getswitchinterval()
    sys.setswitchinterval(1e-6)
    inj.start()
    try:
        ths = [threading.Thread(target=runner, args=(k,), daemon=True) for k in range(nthreads)]
        for t in ths:
            t.start()
        for t in ths:
            t.join(join_s)
        hung = any(t.is_alive() for t in ths)
    finally:
        inj.stop()
        sys.setswitchinterval(old)
    return hung, inj.switches, inj.switch_sites, errors
