"""Witness minimisation at AST / document level (greedy, bounded)."""
from __future__ import annotations

from .gen.docs import deep_copy


def doc_candidates(doc):
    """Smaller variants of a JSON value."""
    if isinstance(doc, list):
        for i in range(len(doc)):
            yield doc[:i] + doc[i + 1:]
        for i, x in enumerate(doc):
            for c in doc_candidates(x):
                yield doc[:i] + [c] + doc[i + 1:]
        for x in doc:
            if isinstance(x, (list, dict)):
                yield x
    elif isinstance(doc, dict):
        keys = list(doc)
        for k in keys:
            yield {kk: v for kk, v in doc.items() if kk != k}
        for k in keys:
            for c in doc_candidates(doc[k]):
                d = dict(doc)
                d[k] = c
                yield d
        for v in doc.values():
            if isinstance(v, (list, dict)):
                yield v
    elif isinstance(doc, str) and len(doc) > 1:
        yield doc[:1]
    elif isinstance(doc, (int, float)) and not isinstance(doc, bool) and doc not in (0, 1):
        yield 1


def shrink_doc(doc, fails, budget=300):
    doc = deep_copy(doc)
    improved = True
    while improved and budget > 0:
        improved = False
        for c in doc_candidates(doc):
            budget -= 1
            if budget <= 0:
                break
            try:
                if fails(deep_copy(c)):
                    doc = c
                    improved = True
                    break
            except Exception:  # noqa: BLE001
                continue
    return doc


def query_candidates(q):
    """Smaller variants of a query AST (same root)."""
    segs = q[2]
    for i in range(len(segs)):
        yield ("q", q[1], segs[:i] + segs[i + 1:])
    for i, (kind, sels) in enumerate(segs):
        if len(sels) > 1:
            for j in range(len(sels)):
                yield ("q", q[1], segs[:i] + ((kind, sels[:j] + sels[j + 1:]),) + segs[i + 1:])
        if kind == "desc":
            yield ("q", q[1], segs[:i] + (("child", sels),) + segs[i + 1:])
        for j, s in enumerate(sels):
            if s[0] == "filter":
                for e in expr_candidates(s[1]):
                    yield ("q", q[1], segs[:i] + ((kind, sels[:j] + (("filter", e),) + sels[j + 1:]),) + segs[i + 1:])


def expr_candidates(e):
    k = e[0]
    if k in ("or", "and"):
        for x in e[1]:
            yield x
        if len(e[1]) > 2:
            for i in range(len(e[1])):
                yield (k, e[1][:i] + e[1][i + 1:])
        for i, x in enumerate(e[1]):
            for c in expr_candidates(x):
                if c[0] in ("or", "and"):
                    c = ("paren", c)
                yield (k, e[1][:i] + (c,) + e[1][i + 1:])
    elif k == "paren":
        yield e[1]
        for c in expr_candidates(e[1]):
            yield ("paren", c)
    elif k == "not":
        if e[1][0] in ("test", "paren"):
            yield e[1]
        for c in expr_candidates(e[1]):
            if c[0] in ("test", "paren"):
                yield ("not", c)
    elif k == "test":
        x = e[1]
        if x[0] == "q":
            for c in query_candidates(x):
                yield ("test", c)
    elif k == "cmp":
        for idx in (2, 3):
            x = e[idx]
            if x[0] == "q":
                for c in query_candidates(x):
                    yield e[:idx] + (c,) + e[idx + 1:]


def shrink_query(q, fails, budget=300):
    improved = True
    while improved and budget > 0:
        improved = False
        for c in query_candidates(q):
            budget -= 1
            if budget <= 0:
                break
            try:
                if fails(c):
                    q = c
                    improved = True
                    break
            except Exception:  # noqa: BLE001
                continue
    return q


def shrink_text(text, fails, budget=150):
    """Delta-debugging style minimisation of a string: remove chunks while `fails(candidate)` stays true."""
    n = 2
    while len(text) >= 2 and budget > 0:
        chunk = max(1, len(text) // n)
        reduced = False
        i = 0
        while i < len(text) and budget > 0:
            cand = text[:i] + text[i + chunk:]
            budget -= 1
            ok = False
            if cand != text:
                try:
                    ok = bool(fails(cand))
                except Exception:  # noqa: BLE001
                    ok = False
            if ok:
                text = cand
                reduced = True
            else:
                i += chunk
        if reduced:
            n = max(n - 1, 2)
        elif chunk == 1:
            break
        else:
            n = min(len(text), n * 2)
    return text
