"""Executable reference semantics of RFC 9535 (sections 2.1.2, 2.3, 2.4, 2.5).

Independent of the repository's code: plain functions over plain Python data.

AST (tuples only, hashable):
  query      ('q', '$'|'@', (segment, ...))
  segment    ('child'|'desc', (selector, ...))
  selector   ('name', str) | ('idx', int) | ('slice', a, b, c) | ('wild',) | ('filter', expr)
  expr       ('or', (e, ...)) | ('and', (e, ...)) | ('not', e) | ('paren', e)
             | ('cmp', op, comparable, comparable) | ('test', query|call)
  comparable ('lit', value) | query (singular) | call
  call       ('call', name, (arg, ...))       arg: ('lit', v) | query | call | expr
A nodelist is a list of (location tuple, value object).
"""
from __future__ import annotations


class _Nothing:
    __slots__ = ()

    def __repr__(self):
        return "NOTHING"


NOTHING = _Nothing()

V, L, N = "V", "L", "N"


def is_num(v):
    return isinstance(v, (int, float)) and not isinstance(v, bool)


def kind(v):
    if v is NOTHING:
        return "nothing"
    if v is None:
        return "null"
    if v is True:
        return "true"
    if v is False:
        return "false"
    if isinstance(v, int):
        return "int"
    if isinstance(v, float):
        return "float"
    if isinstance(v, str):
        return "string"
    if isinstance(v, list):
        return "array"
    if isinstance(v, dict):
        return "object"
    return "other:" + type(v).__name__


def jeq(a, b):
    """Equality of section 2.3.5.2.2; type-strict at every depth."""
    if a is NOTHING or b is NOTHING:
        return a is NOTHING and b is NOTHING
    if isinstance(a, bool) or isinstance(b, bool):
        return isinstance(a, bool) and isinstance(b, bool) and a == b
    if is_num(a) and is_num(b):
        return a == b
    if a is None or b is None:
        return a is None and b is None
    if isinstance(a, str) and isinstance(b, str):
        return a == b
    if isinstance(a, list) and isinstance(b, list):
        return len(a) == len(b) and all(jeq(x, y) for x, y in zip(a, b))
    if isinstance(a, dict) and isinstance(b, dict):
        return a.keys() == b.keys() and all(jeq(a[k], b[k]) for k in a)
    return False


def jlt(a, b):
    if is_num(a) and is_num(b):
        return a < b
    if isinstance(a, str) and isinstance(b, str):
        # code point order; Python str comparison is by code point
        return a < b
    return False


def compare(op, a, b):
    if op == "==":
        return jeq(a, b)
    if op == "!=":
        return not jeq(a, b)
    if op == "<":
        return jlt(a, b)
    if op == ">":
        return jlt(b, a)
    if op == "<=":
        return jlt(a, b) or jeq(a, b)
    if op == ">=":
        return jlt(b, a) or jeq(a, b)
    raise ValueError(op)


def children(v):
    if isinstance(v, dict):
        return list(v.items())
    if isinstance(v, list):
        return list(enumerate(v))
    return []


def descend(loc, v):
    """The node and all its descendants, document pre-order (2.5.2.2)."""
    out = []
    stack = [(loc, v)]
    while stack:
        l, x = stack.pop()
        out.append((l, x))
        ch = children(x)
        for k, c in reversed(ch):
            stack.append((l + (k,), c))
    return out


def slice_indices(n, start, end, step):
    """Section 2.3.4.2.2, verbatim Normalize/Bounds."""
    if step is None:
        step = 1
    if step == 0:
        return []

    def normalize(i):
        return i if i >= 0 else n + i

    if step > 0:
        start = 0 if start is None else start
        end = n if end is None else end
    else:
        start = n - 1 if start is None else start
        end = -n - 1 if end is None else end
    n_start = normalize(start)
    n_end = normalize(end)
    out = []
    if step > 0:
        lower = min(max(n_start, 0), n)
        upper = min(max(n_end, 0), n)
        i = lower
        while i < upper:
            out.append(i)
            i += step
    else:
        upper = min(max(n_start, -1), n - 1)
        lower = min(max(n_end, -1), n - 1)
        i = upper
        while lower < i:
            out.append(i)
            i += step
    return out


def slice_indices_capped(n, start, end, step):
    """Same as slice_indices but O(result) for huge steps/bounds (uses range)."""
    if step is None:
        step = 1
    if step == 0:
        return []
    norm = lambda i: i if i >= 0 else n + i  # noqa: E731
    if step > 0:
        s = 0 if start is None else start
        e = n if end is None else end
        lo = min(max(norm(s), 0), n)
        up = min(max(norm(e), 0), n)
        return list(range(lo, up, step))
    s = n - 1 if start is None else start
    e = -n - 1 if end is None else end
    up = min(max(norm(s), -1), n - 1)
    lo = min(max(norm(e), -1), n - 1)
    return list(range(up, lo, step))


class Model:
    """Evaluator parameterised by a function registry.

    registry: name -> (param types tuple, return type, impl) where impl works on
    oracle-level arguments (values / NOTHING, nodelists as lists of (loc, value),
    booleans) and returns an oracle-level result of the declared type.
    """

    def __init__(self, registry=None):
        self.registry = dict(BUILTINS)
        if registry:
            self.registry.update(registry)

    # --- selectors
    def select(self, selector, loc, v, root):
        k = selector[0]
        if k == "name":
            if isinstance(v, dict) and selector[1] in v:
                return [(loc + (selector[1],), v[selector[1]])]
            return []
        if k == "idx":
            if isinstance(v, list):
                i = selector[1]
                j = i if i >= 0 else len(v) + i
                if 0 <= j < len(v):
                    return [(loc + (j,), v[j])]
            return []
        if k == "slice":
            if isinstance(v, list):
                return [(loc + (j,), v[j]) for j in slice_indices_capped(len(v), *selector[1:])]
            return []
        if k == "wild":
            return [(loc + (kk,), c) for kk, c in children(v)]
        if k == "filter":
            return [(loc + (kk,), c) for kk, c in children(v) if self.truth(selector[1], c, root)]
        raise ValueError(selector)

    def query(self, q, cur, root):
        base = root if q[1] == "$" else cur
        nodes = [((), base)]
        for kind_, sels in q[2]:
            out = []
            for loc, v in nodes:
                targets = descend(loc, v) if kind_ == "desc" else [(loc, v)]
                for l2, v2 in targets:
                    for s in sels:
                        out.extend(self.select(s, l2, v2, root))
            nodes = out
        return nodes

    def find(self, q, doc):
        return self.query(q, doc, doc)

    # --- filter expressions
    def call(self, e, cur, root):
        name, args = e[1], e[2]
        params, ret, impl = self.registry[name]
        vals = [self.arg(a, t, cur, root) for a, t in zip(args, params)]
        return impl(*vals)

    def ret_type(self, e):
        return self.registry[e[1]][1]

    def arg(self, a, t, cur, root):
        k = a[0]
        if t == V:
            return self.value(a, cur, root)
        if t == N:
            if k == "q":
                return self.query(a, cur, root)
            return self.call(a, cur, root)
        # LogicalType
        if k == "q":
            return len(self.query(a, cur, root)) > 0
        if k == "call":
            r = self.call(a, cur, root)
            return (len(r) > 0) if self.ret_type(a) == N else bool(r)
        return self.truth(a, cur, root)

    def value(self, e, cur, root):
        k = e[0]
        if k == "lit":
            return e[1]
        if k == "q":
            r = self.query(e, cur, root)
            return r[0][1] if len(r) == 1 else NOTHING
        if k == "call":
            return self.call(e, cur, root)
        raise ValueError(e)

    def truth(self, e, cur, root):
        k = e[0]
        if k == "or":
            return any([self.truth(x, cur, root) for x in e[1]])
        if k == "and":
            return all([self.truth(x, cur, root) for x in e[1]])
        if k == "not":
            return not self.truth(e[1], cur, root)
        if k == "paren":
            return self.truth(e[1], cur, root)
        if k == "cmp":
            return compare(e[1], self.value(e[2], cur, root), self.value(e[3], cur, root))
        if k == "test":
            x = e[1]
            if x[0] == "q":
                return len(self.query(x, cur, root)) > 0
            r = self.call(x, cur, root)
            return (len(r) > 0) if self.ret_type(x) == N else bool(r)
        raise ValueError(e)


def _length(v):
    if isinstance(v, str):
        return len(v)  # Python str = sequence of code points (no surrogates in domain)
    if isinstance(v, (list, dict)):
        return len(v)
    return NOTHING


def _count(nodes):
    return len(nodes)


def _value(nodes):
    return nodes[0][1] if len(nodes) == 1 else NOTHING


def _match(s, p):
    from . import iregexp
    if not isinstance(s, str) or not isinstance(p, str):
        return False
    return iregexp.match_text(p, s)


def _search(s, p):
    from . import iregexp
    if not isinstance(s, str) or not isinstance(p, str):
        return False
    return iregexp.search_text(p, s)


BUILTINS = {
    "length": ((V,), V, _length),
    "count": ((N,), V, _count),
    "value": ((N,), V, _value),
    "match": ((V, V), L, _match),
    "search": ((V, V), L, _search),
}

BUILTIN_SIGS = {k: (v[0], v[1]) for k, v in BUILTINS.items()}


# ---------------------------------------------------------------------------
# helpers over the AST

def is_singular(q):
    for kind_, sels in q[2]:
        if kind_ != "child" or len(sels) != 1 or sels[0][0] not in ("name", "idx"):
            return False
    return True


def walk_exprs(q):
    """Yield every filter expression in a query (recursively)."""
    for _, sels in q[2]:
        for s in sels:
            if s[0] == "filter":
                yield s[1]
                yield from _walk_expr_queries(s[1])


def _walk_expr_queries(e):
    k = e[0]
    if k in ("or", "and"):
        for x in e[1]:
            yield from _walk_expr_queries(x)
    elif k in ("not", "paren"):
        yield from _walk_expr_queries(e[1])
    elif k == "cmp":
        for x in (e[2], e[3]):
            yield from _walk_expr_queries(x)
    elif k == "test":
        yield from _walk_expr_queries(e[1])
    elif k == "q":
        yield from walk_exprs(e)
    elif k == "call":
        for a in e[2]:
            yield from _walk_expr_queries(a)


def has_filter(q):
    return any(s[0] == "filter" for _, sels in q[2] for s in sels)


def ast_size(x):
    if isinstance(x, tuple):
        return 1 + sum(ast_size(y) for y in x)
    return 0
