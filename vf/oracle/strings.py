"""String literal spellings (RFC 9535 2.3.1) and normalized paths (2.7)."""
from __future__ import annotations

NAMED = {"\b": "b", "\f": "f", "\n": "n", "\r": "r", "\t": "t", "/": "/", "\\": "\\"}


def is_unescaped(cp):
    """RFC 9535 `unescaped`: %x20-21 / %x23-26 / %x28-5B / %x5D-D7FF / %xE000-10FFFF."""
    return (0x20 <= cp <= 0x21 or 0x23 <= cp <= 0x26 or 0x28 <= cp <= 0x5B
            or 0x5D <= cp <= 0xD7FF or 0xE000 <= cp <= 0x10FFFF)


def spellings(ch, quote):
    """All spellings of one character inside a literal delimited by `quote`.

    Returns a list of (tag, text).
    """
    cp = ord(ch)
    other = '"' if quote == "'" else "'"
    out = []
    if is_unescaped(cp) or ch == other:
        out.append(("raw", ch))
    if ch == quote:
        out.append(("esc-quote", "\\" + ch))
    if ch in NAMED:
        out.append(("named", "\\" + NAMED[ch]))
    if cp < 0x10000:
        out.append(("u-lower", "\\u%04x" % cp))
        out.append(("u-upper", "\\u%04X" % cp))
    else:
        v = cp - 0x10000
        hi, lo = 0xD800 + (v >> 10), 0xDC00 + (v & 0x3FF)
        out.append(("pair-lower", "\\u%04x\\u%04x" % (hi, lo)))
        out.append(("pair-upper", "\\u%04X\\u%04X" % (hi, lo)))
        out.append(("pair-mixed", "\\u%04X\\u%04x" % (hi, lo)))
    return out


def canonical_spelling(ch, quote="'"):
    cp = ord(ch)
    if ch == quote or ch == "\\":
        return "\\" + ch
    if ch in NAMED and ch != "/":
        return "\\" + NAMED[ch]
    if cp < 0x20:
        return "\\u%04x" % cp
    return ch


def normalized_name(name):
    """normal-single-quoted rendering of a member name (section 2.7)."""
    return "'" + "".join(canonical_spelling(c) for c in name) + "'"


def normalized_path(location):
    out = ["$"]
    for p in location:
        if isinstance(p, str):
            out.append("[" + normalized_name(p) + "]")
        else:
            out.append("[%d]" % p)
    return "".join(out)
