"""RFC 9485 I-Regexp: AST, strict parser, renderer and a back-tracking-free matcher.

AST:
  ('alt', (branch, ...))   branch = ('seq', (piece, ...))
  piece = atom | ('rep', atom, lo, hi|None)
  atom  = ('lit', ch) | ('esc', c)   -- SingleCharEsc, c is the char after the backslash
        | ('dot',) | ('cat', neg, name)
        | ('cls', neg, (item, ...), lead_dash, trail_dash) | ('grp', alt)
  item  = ('ch', c) | ('cesc', c) | ('rng', a, b) | ('cat', neg, name)
          (a, b in 'rng' are ('ch', c) or ('cesc', c))
"""
from __future__ import annotations

import unicodedata

ESCMAP = {"n": "\n", "r": "\r", "t": "\t"}
SINGLE_ESC = set("()*+-.?[\\]^nrt{|}")
CATS = {
    "L": "lmotu", "M": "cen", "N": "dlo", "P": "cdefios", "Z": "lps", "S": "ckmo", "C": "cfno",
}


def _is_normal_char(c):
    o = ord(c)
    if 0xD800 <= o <= 0xDFFF:
        return False
    return not (c in "()*+.?[\\]{|}")


def _is_cc_char(c):
    o = ord(c)
    if 0xD800 <= o <= 0xDFFF:
        return False
    return c not in "-[\\]"


class Invalid(ValueError):
    pass


class Gray(ValueError):
    """Pattern falls in a construct whose reading is disputed; callers must skip it."""


class _P:
    def __init__(self, t):
        self.t = t
        self.i = 0

    def peek(self):
        return self.t[self.i] if self.i < len(self.t) else ""

    def eat(self, c):
        if self.peek() == c and c != "":
            self.i += 1
            return True
        return False

    def alt(self):
        bs = [self.branch()]
        while self.eat("|"):
            bs.append(self.branch())
        return ("alt", tuple(bs))

    def branch(self):
        ps = []
        while self.peek() not in ("", "|", ")"):
            ps.append(self.piece())
        return ("seq", tuple(ps))

    def piece(self):
        a = self.atom()
        c = self.peek()
        if c == "*":
            self.i += 1
            return ("rep", a, 0, None)
        if c == "+":
            self.i += 1
            return ("rep", a, 1, None)
        if c == "?":
            self.i += 1
            return ("rep", a, 0, 1)
        if c == "{":
            self.i += 1
            lo = self.digits()
            hi = lo
            if self.eat(","):
                hi = self.digits() if self.peek().isdigit() and self.peek().isascii() else None
            if not self.eat("}"):
                raise Invalid("range quantifier")
            if hi is not None and hi < lo:
                raise Gray("n>m")
            return ("rep", a, lo, hi)
        return a

    def digits(self):
        j = self.i
        while self.peek() in "0123456789" and self.peek() != "":
            self.i += 1
        if j == self.i:
            raise Invalid("quantity")
        return int(self.t[j:self.i])

    def cat(self):
        # after backslash; at 'p' or 'P'
        neg = self.peek() == "P"
        self.i += 1
        if not self.eat("{"):
            raise Invalid("cat")
        major = self.peek()
        if major not in CATS:
            raise Invalid("cat major")
        self.i += 1
        name = major
        if self.peek() != "}" and self.peek() != "":
            if self.peek() not in CATS[major]:
                raise Invalid("cat minor")
            name += self.peek()
            self.i += 1
        if not self.eat("}"):
            raise Invalid("cat close")
        return ("cat", neg, name)

    def atom(self):
        c = self.peek()
        if c == "(":
            self.i += 1
            e = self.alt()
            if not self.eat(")"):
                raise Invalid("unclosed group")
            return ("grp", e)
        if c == ".":
            self.i += 1
            return ("dot",)
        if c == "\\":
            self.i += 1
            d = self.peek()
            if d in ("p", "P"):
                return self.cat()
            if d != "" and d in SINGLE_ESC:
                self.i += 1
                return ("esc", d)
            raise Invalid("escape")
        if c == "[":
            return self.cls()
        if c != "" and _is_normal_char(c):
            self.i += 1
            return ("lit", c)
        raise Invalid("unexpected %r" % c)

    def ccchar(self):
        c = self.peek()
        if c == "\\":
            d = self.t[self.i + 1] if self.i + 1 < len(self.t) else ""
            if d != "" and d in SINGLE_ESC:
                self.i += 2
                return ("cesc", d)
            return None
        if c != "" and _is_cc_char(c):
            self.i += 1
            return ("ch", c)
        return None

    def cls(self):
        if not self.eat("["):   # (never an assert: the harness also runs under python -O)
            raise Invalid("expected '['")
        neg = False
        if self.peek() == "^":
            # "[" [ "^" ] ... : '^' is also a CCchar, the ABNF is ambiguous here.
            nxt = self.t[self.i + 1] if self.i + 1 < len(self.t) else ""
            if nxt == "]":
                raise Gray("[^]")
            neg = True
            self.i += 1
        lead = False
        items = []
        if self.peek() == "-":
            self.i += 1
            lead = True
        else:
            items.append(self.cce1())
        trail = False
        while True:
            c = self.peek()
            if c == "]":
                self.i += 1
                break
            if c == "-":
                self.i += 1
                if self.eat("]"):
                    trail = True
                    break
                raise Invalid("dash in class")
            if c == "":
                raise Invalid("unclosed class")
            items.append(self.cce1())
        return ("cls", neg, tuple(items), lead, trail)

    def cce1(self):
        if self.peek() == "\\" and self.i + 1 < len(self.t) and self.t[self.i + 1] in "pP":
            self.i += 1
            return self.cat()
        a = self.ccchar()
        if a is None:
            raise Invalid("class item")
        if self.peek() == "-":
            # range if followed by a CCchar; otherwise the '-' must be the trailing dash
            save = self.i
            self.i += 1
            b = self.ccchar()
            if b is None:
                self.i = save
                return a
            ca, cb = _item_char(a), _item_char(b)
            if ca > cb:
                raise Gray("reversed range")
            return ("rng", a, b)
        return a


def _item_char(it):
    return ESCMAP.get(it[1], it[1]) if it[0] == "cesc" else it[1]


def parse(text):
    """Return the AST of an I-Regexp, raise Invalid or Gray."""
    for ch in text:
        if 0xD800 <= ord(ch) <= 0xDFFF:
            raise Gray("surrogate")
    p = _P(text)
    e = p.alt()
    if p.i != len(text):
        raise Invalid("trailing %r" % text[p.i:])
    return e


def render(e):
    k = e[0]
    if k == "lit":
        return e[1]
    if k == "esc":
        return "\\" + e[1]
    if k == "dot":
        return "."
    if k == "cat":
        return ("\\P{" if e[1] else "\\p{") + e[2] + "}"
    if k == "cls":
        s = "[" + ("^" if e[1] else "") + ("-" if e[3] else "")
        for it in e[2]:
            s += _render_item(it)
        return s + ("-" if e[4] else "") + "]"
    if k == "grp":
        return "(" + render(e[1]) + ")"
    if k == "seq":
        return "".join(render(x) for x in e[1])
    if k == "alt":
        return "|".join(render(x) for x in e[1])
    if k == "rep":
        a = render(e[1])
        lo, hi = e[2], e[3]
        style = e[4] if len(e) > 4 else None
        if style is None:
            if (lo, hi) == (0, None):
                return a + "*"
            if (lo, hi) == (1, None):
                return a + "+"
            if (lo, hi) == (0, 1):
                return a + "?"
        if hi is None:
            return a + "{%d,}" % lo
        if hi == lo and style != "pair":
            return a + "{%d}" % lo
        return a + "{%d,%d}" % (lo, hi)
    raise ValueError(e)


def _render_item(it):
    if it[0] == "ch":
        return it[1]
    if it[0] == "cesc":
        return "\\" + it[1]
    if it[0] == "rng":
        return _render_item(it[1]) + "-" + _render_item(it[2])
    if it[0] == "cat":
        return ("\\P{" if it[1] else "\\p{") + it[2] + "}"
    raise ValueError(it)


# ---------------------------------------------------------------------------
# matching

def catmatch(name, ch):
    c = unicodedata.category(ch)
    return c == name if len(name) == 2 else c[0] == name


def single(e, ch):
    k = e[0]
    if k == "lit":
        return ch == e[1]
    if k == "esc":
        return ch == ESCMAP.get(e[1], e[1])
    if k == "dot":
        return ch not in "\n\r"
    if k == "cat":
        return catmatch(e[2], ch) != e[1]
    if k == "cls":
        hit = (e[3] or e[4]) and ch == "-"
        for it in e[2]:
            if it[0] in ("ch", "cesc"):
                hit = hit or ch == _item_char(it)
            elif it[0] == "rng":
                hit = hit or _item_char(it[1]) <= ch <= _item_char(it[2])
            elif it[0] == "cat":
                hit = hit or (catmatch(it[2], ch) != it[1])
        return bool(hit) != e[1]
    raise ValueError(e)


def ends(e, s, i):
    """Set of end positions of matches of e in s starting at i."""
    k = e[0]
    if k in ("lit", "dot", "esc", "cat", "cls"):
        if i >= len(s):
            return set()
        return {i + 1} if single(e, s[i]) else set()
    if k == "grp":
        return ends(e[1], s, i)
    if k == "seq":
        cur = {i}
        for x in e[1]:
            nxt = set()
            for p in cur:
                nxt |= ends(x, s, p)
            cur = nxt
            if not cur:
                break
        return cur
    if k == "alt":
        out = set()
        for x in e[1]:
            out |= ends(x, s, i)
        return out
    if k == "rep":
        inner, lo, hi = e[1], e[2], e[3]

        def step(ps):
            nxt = set()
            for p in ps:
                nxt |= ends(inner, s, p)
            return nxt

        cur = {i}
        # exact counts up to lo; position sets repeat quickly, so cap the loop by
        # detecting a cycle in the sequence of sets (sets are subsets of 0..len(s))
        seen_seq = {}
        n = 0
        while n < lo:
            key = frozenset(cur)
            if key in seen_seq:
                period = n - seen_seq[key]
                remaining = (lo - n) % period
                lo_eff = n + remaining
                # fast-forward
                while n < lo_eff:
                    cur = step(cur)
                    n += 1
                break
            seen_seq[key] = n
            cur = step(cur)
            n += 1
            if not cur:
                return set()
        out = set(cur)
        if hi is None:
            frontier = set(cur)
            while frontier:
                nxt = step(frontier) - out
                out |= nxt
                frontier = nxt
        else:
            frontier = set(cur)
            for _ in range(hi - lo):
                nxt = step(frontier) - out
                if not nxt:
                    break
                out |= nxt
                frontier = nxt
        return out
    raise ValueError(e)


def full(e, s):
    return len(s) in ends(e, s, 0)


def search(e, s):
    return any(ends(e, s, i) for i in range(len(s) + 1))


def match_text(p, s):
    """match() semantics on pattern text: invalid pattern -> False. Gray propagates."""
    try:
        e = parse(p)
    except Invalid:
        return False
    return full(e, s)


def search_text(p, s):
    try:
        e = parse(p)
    except Invalid:
        return False
    return search(e, s)
