"""RFC 9535 section 2.4.3 well-typedness and the integer-range validity rule, over the AST.

registry: name -> (param types tuple, return type) with types 'V', 'L', 'N'.
Every function returns (ok: bool, reason: str|None).
"""
from __future__ import annotations

from .sem import V, L, N, is_singular

LOGICAL_KINDS = ("or", "and", "not", "paren", "cmp", "test")


def well_typed(q, registry):
    """Well-typedness of every filter expression inside query q."""
    for _, sels in q[2]:
        for s in sels:
            if s[0] == "filter":
                r = _logical(s[1], registry)
                if r:
                    return False, r
    return True, None


def _query(q, registry):
    ok, r = well_typed(q, registry)
    return r


def _logical(e, reg):
    k = e[0]
    if k in ("or", "and"):
        for x in e[1]:
            r = _logical(x, reg)
            if r:
                return r
        return None
    if k in ("not", "paren"):
        return _logical(e[1], reg)
    if k == "cmp":
        for x in (e[2], e[3]):
            r = _comparable(x, reg)
            if r:
                return r
        return None
    if k == "test":
        x = e[1]
        if x[0] == "q":
            return _query(x, reg)
        if x[0] == "call":
            r = _call(x, reg)
            if r:
                return r
            if reg[x[1]][1] == V:
                return "ValueType call %s() used as a test" % x[1]
            return None
    if k == "lit":
        return "literal used as a logical expression"
    if k in ("q", "call"):
        # bare query/call where the AST builder did not wrap it in 'test'
        return _logical(("test", e), reg)
    return "not a logical expression: %r" % (k,)


def _comparable(x, reg):
    k = x[0]
    if k == "lit":
        return None
    if k == "q":
        if not is_singular(x):
            return "non-singular query compared"
        return _query(x, reg)
    if k == "call":
        r = _call(x, reg)
        if r:
            return r
        if reg[x[1]][1] != V:
            return "%s() is not ValueType but compared" % x[1]
        return None
    return "not comparable: %r" % (k,)


def _call(c, reg):
    name, args = c[1], c[2]
    if name not in reg:
        return "unknown function %s" % name
    params, _ret = reg[name][0], reg[name][1]
    if len(params) != len(args):
        return "%s(): %d arguments for %d parameters" % (name, len(args), len(params))
    for a, t in zip(args, params):
        r = _arg(a, t, reg)
        if r:
            return "%s(): %s" % (name, r)
    return None


def _arg(a, t, reg):
    k = a[0]
    if t == V:
        if k == "lit":
            return None
        if k == "q":
            if not is_singular(a):
                return "non-singular query for ValueType parameter"
            return _query(a, reg)
        if k == "call":
            r = _call(a, reg)
            if r:
                return r
            return None if reg[a[1]][1] == V else "non-ValueType call for ValueType parameter"
        return "logical expression for ValueType parameter"
    if t == N:
        if k == "q":
            return _query(a, reg)
        if k == "call":
            r = _call(a, reg)
            if r:
                return r
            return None if reg[a[1]][1] == N else "non-NodesType call for NodesType parameter"
        return "%s for NodesType parameter" % k
    # LogicalType
    if k == "lit":
        return "literal for LogicalType parameter"
    if k == "q":
        return _query(a, reg)
    if k == "call":
        r = _call(a, reg)
        if r:
            return r
        return None if reg[a[1]][1] in (L, N) else "ValueType call for LogicalType parameter"
    return _logical(a, reg)


def ints_of(q):
    """Every index / slice integer in q (recursively)."""
    out = []
    _ints_query(q, out)
    return out


def _ints_query(q, out):
    for _, sels in q[2]:
        for s in sels:
            if s[0] == "idx":
                out.append(s[1])
            elif s[0] == "slice":
                out.extend(x for x in s[1:] if x is not None)
            elif s[0] == "filter":
                _ints_expr(s[1], out)


def _ints_expr(e, out):
    k = e[0]
    if k in ("or", "and"):
        for x in e[1]:
            _ints_expr(x, out)
    elif k in ("not", "paren", "test"):
        _ints_expr(e[1], out)
    elif k == "cmp":
        _ints_expr(e[2], out)
        _ints_expr(e[3], out)
    elif k == "q":
        _ints_query(e, out)
    elif k == "call":
        for a in e[2]:
            _ints_expr(a, out)


def in_range(q, lo, hi):
    bad = [i for i in ints_of(q) if i < lo or i > hi]
    return (not bad), (("integer %d outside [%d, %d]" % (bad[0], lo, hi)) if bad else None)


def literals_of(q):
    out = []

    def ex(e):
        k = e[0]
        if k in ("or", "and"):
            for x in e[1]:
                ex(x)
        elif k in ("not", "paren", "test"):
            ex(e[1])
        elif k == "cmp":
            ex(e[2])
            ex(e[3])
        elif k == "q":
            qq(e)
        elif k == "call":
            for a in e[2]:
                ex(a)
        elif k == "lit":
            out.append(e[1])

    def qq(q_):
        for _, sels in q_[2]:
            for s in sels:
                if s[0] == "filter":
                    ex(s[1])

    qq(q)
    return out
