"""RFC 9535 Appendix A ABNF as a scannerless Earley grammar (lark) + parse tree -> AST.

Two languages:
  strict   the ABNF as published
  liberal  strict + blank space inside the brackets of singular-query segments
           (`@[ 'a' ] == 1`), the one place where the published ABNF is known to be
           narrower than what every implementation (and the normal bracketed
           selection rule) accepts.
A string outside `liberal` must be rejected (C04); a string inside `strict` that is
also valid must be accepted (C03). In between: unconstrained.

Extra productions ("grammar deltas") can be appended to describe a known laxness of
an implementation, see `Recogniser(extra=...)`.
"""
from __future__ import annotations

import sys

from lark import Lark, Token, Tree
from lark.exceptions import LarkError

_COMMON = r'''
start: jsonpath_query
jsonpath_query: "$" segments
segments: (s segment)*
b: " " | "\t" | "\n" | "\r"
s: b*
selector: name_selector | wildcard_selector | slice_selector | index_selector | filter_selector
name_selector: string_literal
!string_literal: "\"" double_quoted* "\"" | "'" single_quoted* "'"
!double_quoted: UNESCAPED | "'" | "\\" "\"" | "\\" escapable
!single_quoted: UNESCAPED | "\"" | "\\" "'" | "\\" escapable
UNESCAPED: /[ !#-&(-\[\]^-퟿-\U0010FFFF]/
!escapable: "b" | "f" | "n" | "r" | "t" | "/" | "\\" | "u" hexchar
!hexchar: non_surrogate | high_surrogate "\\" "u" low_surrogate
!non_surrogate: /[0-9A-CEFa-cef]/ HEXDIG HEXDIG HEXDIG | /[Dd]/ /[0-7]/ HEXDIG HEXDIG
!high_surrogate: /[Dd]/ /[89ABab]/ HEXDIG HEXDIG
!low_surrogate: /[Dd]/ /[CDEFcdef]/ HEXDIG HEXDIG
HEXDIG: /[0-9A-Fa-f]/
!wildcard_selector: "*"
index_selector: int
!int: "0" | "-"? DIGIT1 DIGIT*
DIGIT1: /[1-9]/
DIGIT: /[0-9]/
!slice_selector: slice_start? ":" s slice_end? (":" (s slice_step)?)?
slice_start: int s
slice_end: int s
slice_step: int
filter_selector: "?" s logical_expr
logical_expr: logical_or_expr
logical_or_expr: logical_and_expr (s "||" s logical_and_expr)*
logical_and_expr: basic_expr (s "&&" s basic_expr)*
basic_expr: paren_expr | comparison_expr | test_expr
paren_expr: not_op? "(" s logical_expr s ")"
test_expr: not_op? (filter_query | function_expr)
!not_op: "!" s
filter_query: rel_query | jsonpath_query
rel_query: "@" segments
comparison_expr: comparable s comparison_op s comparable
literal: number | string_literal | true | false | null
!true: "true"
!false: "false"
!null: "null"
comparable: literal | singular_query | function_expr
!comparison_op: "==" | "!=" | "<=" | ">=" | "<" | ">"
singular_query: rel_singular_query | abs_singular_query
rel_singular_query: "@" singular_query_segments
abs_singular_query: "$" singular_query_segments
singular_query_segments: (s (name_segment | index_segment))*
!number: (int | "-0") frac? exp?
!frac: "." DIGIT+
!exp: /[eE]/ /[-+]/? DIGIT+
!function_name: LCALPHA (LCALPHA | "_" | DIGIT)*
LCALPHA: /[a-z]/
function_expr: function_name "(" s (function_argument (s "," s function_argument)*)? s ")"
function_argument: literal | filter_query | logical_expr | function_expr
segment: child_segment | descendant_segment
child_segment: bracketed_selection | "." (wildcard_selector | member_name_shorthand)
bracketed_selection: "[" s selector (s "," s selector)* s "]"
!member_name_shorthand: NAME_FIRST NAME_CHAR*
NAME_FIRST: /[A-Za-z_\u0080-퟿-\U0010FFFF]/
NAME_CHAR: /[0-9A-Za-z_\u0080-퟿-\U0010FFFF]/
descendant_segment: ".." (bracketed_selection | wildcard_selector | member_name_shorthand)
'''

_STRICT = r'''
name_segment: "[" name_selector "]" | "." member_name_shorthand
index_segment: "[" index_selector "]"
'''

_LIBERAL = r'''
name_segment: "[" s name_selector s "]" | "." member_name_shorthand
index_segment: "[" s index_selector s "]"
'''


class Recogniser:
    def __init__(self, liberal=False, extra=""):
        g = _COMMON + (_LIBERAL if liberal else _STRICT) + extra
        self.lark = Lark(g, parser="earley", lexer="dynamic", ambiguity="resolve")

    def tree(self, text):
        return self.lark.parse(text)

    def member(self, text):
        try:
            self.lark.parse(text)
            return True
        except LarkError:
            return False
        except RecursionError:
            raise

    def ast(self, text):
        """Return the AST, or None if text is not in the language."""
        try:
            t = self.lark.parse(text)
        except LarkError:
            return None
        return to_ast(t)


_cache = {}


def get(liberal=False, extra=""):
    key = (liberal, extra)
    if key not in _cache:
        _cache[key] = Recogniser(liberal, extra)
    return _cache[key]


# ---------------------------------------------------------------------------
# tree -> AST

def _text(t):
    if isinstance(t, Token):
        return str(t)
    return "".join(_text(c) for c in t.children)


def _kids(t, *names):
    return [c for c in t.children if isinstance(c, Tree) and c.data in names]


def _first(t, *names):
    for c in t.children:
        if isinstance(c, Tree) and c.data in names:
            return c
    return None


def decode_string_literal(text):
    """Decode the text of a string-literal (quotes included) per RFC 9535."""
    q = text[0]
    if not (text[-1] == q and len(text) >= 2):
        raise ValueError("not a quoted literal: %r" % (text[:40],))
    body = text[1:-1]
    out = []
    i = 0
    n = len(body)
    while i < n:
        c = body[i]
        if c != "\\":
            out.append(c)
            i += 1
            continue
        d = body[i + 1]
        if d == "u":
            cp = int(body[i + 2:i + 6], 16)
            i += 6
            if 0xD800 <= cp <= 0xDBFF:
                lo = int(body[i + 2:i + 6], 16)
                cp = 0x10000 + ((cp - 0xD800) << 10) + (lo - 0xDC00)
                i += 6
            out.append(chr(cp))
            continue
        out.append({"b": "\b", "f": "\f", "n": "\n", "r": "\r", "t": "\t", "/": "/", "\\": "\\", "'": "'", '"': '"'}[d])
        i += 2
    return "".join(out)


def parse_number(text):
    """Value of a `number` literal; int when it is written without frac/exp or is integral."""
    if "." in text or "e" in text or "E" in text:
        try:
            f = float(text)
        except (ValueError, OverflowError):
            return float("inf")
        return f
    return int(text)


def to_ast(t):
    d = t.data
    if d == "start":
        return to_ast(t.children[0])
    if d == "jsonpath_query":
        return ("q", "$", _segments(_first(t, "segments")))
    if d == "rel_query":
        return ("q", "@", _segments(_first(t, "segments")))
    if d == "filter_query":
        return to_ast(_kids(t, "rel_query", "jsonpath_query")[0])
    if d == "singular_query":
        return to_ast(t.children[0])
    if d in ("rel_singular_query", "abs_singular_query"):
        root = "@" if d.startswith("rel") else "$"
        segs = []
        sq = _first(t, "singular_query_segments")
        for c in sq.children:
            if isinstance(c, Tree) and c.data == "name_segment":
                ns = _first(c, "name_selector")
                if ns is not None:
                    segs.append(("child", (("name", decode_string_literal(_text(ns))),)))
                else:
                    segs.append(("child", (("name", _text(_first(c, "member_name_shorthand"))),)))
            elif isinstance(c, Tree) and c.data == "index_segment":
                segs.append(("child", (("idx", int(_text(_first(c, "index_selector")))),)))
        return ("q", root, tuple(segs))
    if d == "logical_expr":
        return to_ast(t.children[0])
    if d == "logical_or_expr":
        ks = [to_ast(c) for c in _kids(t, "logical_and_expr")]
        return ks[0] if len(ks) == 1 else ("or", tuple(ks))
    if d == "logical_and_expr":
        ks = [to_ast(c) for c in _kids(t, "basic_expr")]
        return ks[0] if len(ks) == 1 else ("and", tuple(ks))
    if d == "basic_expr":
        return to_ast(t.children[0])
    if d == "paren_expr":
        inner = ("paren", to_ast(_first(t, "logical_expr")))
        return ("not", inner) if _first(t, "not_op") is not None else inner
    if d == "test_expr":
        x = _kids(t, "filter_query", "function_expr")[0]
        inner = ("test", to_ast(x))
        return ("not", inner) if _first(t, "not_op") is not None else inner
    if d == "comparison_expr":
        l, r = _kids(t, "comparable")
        return ("cmp", _text(_first(t, "comparison_op")), to_ast(l), to_ast(r))
    if d == "comparable":
        return to_ast(t.children[0])
    if d == "literal":
        c = t.children[0]
        if c.data == "number":
            return ("lit", parse_number(_text(c)))
        if c.data == "string_literal":
            return ("lit", decode_string_literal(_text(c)))
        return ("lit", {"true": True, "false": False, "null": None}[c.data])
    if d == "function_expr":
        name = _text(_first(t, "function_name"))
        args = tuple(to_ast(a) for a in _kids(t, "function_argument"))
        return ("call", name, args)
    if d == "function_argument":
        c = t.children[0]
        a = to_ast(c)
        # function-argument is ambiguous (filter-query / function-expr are also
        # logical-exprs): normalise a bare, un-negated, un-parenthesised test.
        if a[0] == "test":
            return a[1]
        return a
    raise ValueError("unexpected tree node " + d)


def _segments(t):
    out = []
    for seg in _kids(t, "segment"):
        c = seg.children[0]
        if c.data == "child_segment":
            out.append(("child", _selectors(c)))
        else:
            out.append(("desc", _selectors(c)))
    return tuple(out)


def _selectors(seg):
    bs = _first(seg, "bracketed_selection")
    if bs is not None:
        return tuple(_selector(s) for s in _kids(bs, "selector"))
    if _first(seg, "wildcard_selector") is not None:
        return (("wild",),)
    return (("name", _text(_first(seg, "member_name_shorthand"))),)


def _selector(s):
    c = s.children[0]
    d = c.data
    if d == "name_selector":
        return ("name", decode_string_literal(_text(c)))
    if d == "wildcard_selector":
        return ("wild",)
    if d == "index_selector":
        return ("idx", int(_text(c)))
    if d == "slice_selector":
        def part(name):
            x = _first(c, name)
            return None if x is None else int(_text(_first(x, "int")))
        return ("slice", part("slice_start"), part("slice_end"), part("slice_step"))
    if d == "filter_selector":
        return ("filter", to_ast(_first(c, "logical_expr")))
    raise ValueError(d)


# ---------------------------------------------------------------------------
# AST normalisation used to compare meanings (C12) and round-trips

def normalise(x):
    """Drop redundant structure: parentheses, nested same-op and/or, number types."""
    if not isinstance(x, tuple) or not x:
        return x
    k = x[0]
    if k == "paren":
        return normalise(x[1])
    if k in ("or", "and"):
        items = []
        for e in x[1]:
            n = normalise(e)
            if n[0] == k:
                items.extend(n[1])
            else:
                items.append(n)
        return (k, tuple(items))
    if k == "not":
        return ("not", normalise(x[1]))
    if k == "lit":
        v = x[1]
        if isinstance(v, float) and not isinstance(v, bool) and v == v and abs(v) < 2**53 and v == int(v):
            v = int(v)
        if isinstance(v, int) and not isinstance(v, bool) and v == 0:
            v = 0
        return ("lit", ("#bool", v) if isinstance(v, bool) else v)
    if k == "slice":
        a, b, c = x[1:]
        return ("slice", a, b, 1 if c is None else c)
    return tuple(normalise(y) if isinstance(y, tuple) else y for y in x)


if __name__ == "__main__":
    import time
    r = get()
    lib = get(True)
    tests = ["$", "$.a", "$ .a", "$.a ", "$[?@.a==1]", "$[?@[ 'a' ]==1]", "$[?@['a']==1]", "$[?(@.a)==1]", "$[?!!@.a]", "$[?!(!@.a)]", "$[1:2 3]", "$[1:2:3]", "$[?count(@.a,)==1]", "$.a-b", "$[?@.a==-01]", "$[?@.a==-0]", "$[?@.a==0e1]", "$[?@.a==1E5]", "$['\\u0000']", "$['\\ud83d\\ude00']", "$['\\ud83d']", "$.\U0001F600", "$[?f(!@.a)]", "$[?f((@.a))]", "$[?f(@.a && @.b)]", "$[?f(1, 'x', $, g())]", "$..[?@..a[?@.b == 'x'] ]", "$[?@.a==1==1]", "$[? @ . a]", "$[?@ .a]", "$..\n*", "$[?true]", "$[?true==true]", "$[?@.a==TRUE]", "$[0 : 1 : 2]", "$[::]", "$[::-0]", "$[-0]", "$[01]"]
    t0 = time.time()
    for q in tests:
        a = r.ast(q)
        print(repr(q), a is not None, lib.member(q), a)
    print(round((time.time() - t0) / len(tests) * 1e3, 2), "ms/query")
