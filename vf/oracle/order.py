"""Orderings RFC 9535 permits for a query on a (small) value, and the orderings the documented
queue traversal (jsonpath_rfc9535/utils/nondeterministic_descent.py) can produce.

Results are tuples of locations. Both functions raise TooBig when the set exceeds the cap.
"""
from __future__ import annotations

import itertools

from . import sem


class TooBig(Exception):
    pass


def _children(v):
    if isinstance(v, dict):
        return [(k, c) for k, c in v.items()]
    if isinstance(v, list):
        return list(enumerate(v))
    return []


def _child_orders(v):
    """Orders in which the children of one node may be enumerated."""
    ch = _children(v)
    if isinstance(v, dict):
        return [list(p) for p in itertools.permutations(ch)]
    return [ch]


class Orders:
    def __init__(self, cap=20000, model=None, work_cap=400000):
        self.cap = cap
        self.work_cap = work_cap
        self.work = 0
        self.model = model or sem.Model()

    def tick(self, n=1):
        """Bound the total work of one results() call (the sets can be small while their construction is not)."""
        self.work += n
        if self.work > self.work_cap:
            raise TooBig()

    # -- selector results for one node: set of tuples of (loc, value)
    def selector_options(self, s, loc, v, root):
        k = s[0]
        if k in ("name", "idx", "slice"):
            return {tuple(_Node(l, x) for l, x in self.model.select(s, loc, v, root))}
        if k == "wild":
            return {tuple(_Node(loc + (kk,), c) for kk, c in order) for order in _child_orders(v)} or {()}
        if k == "filter":
            out = set()
            for order in _child_orders(v):
                out.add(tuple(_Node(loc + (kk,), c) for kk, c in order if self.model.truth(s[1], c, root)))
            return out or {()}
        raise ValueError(s)

    def node_options(self, sels, loc, v, root):
        """Concatenation of the selectors' results for one node, in selector order."""
        opts = [self.selector_options(s, loc, v, root) for s in sels]
        return self._concat_product(opts)

    def _concat_product(self, opts):
        acc = {()}
        for o in opts:
            nxt = set()
            for a in acc:
                for b in o:
                    self.tick()
                    nxt.add(a + b)
                    if len(nxt) > self.cap:
                        raise TooBig()
            acc = nxt
        return acc

    # -- visit orders of a descendant segment
    def containers(self, loc, v):
        out = [(loc, v)]
        for k, c in _children(v):
            if isinstance(c, (dict, list)):
                out += self.containers(loc + (k,), c)
        return out

    def permitted_visits(self, loc, v):
        """All linear extensions of {parent before child, array element i before i+1} over containers."""
        nodes = self.containers(loc, v)
        locs = [l for l, _ in nodes]
        before = {l: set() for l in locs}
        for l in locs:
            if l != loc:
                before[l].add(l[:-1])
        for l, x in nodes:
            if isinstance(x, list):
                kids = [l + (i,) for i, e in enumerate(x) if isinstance(e, (dict, list))]
                for a, b in zip(kids, kids[1:]):
                    before[b].add(a)
        vals = dict(nodes)
        out = []

        def rec(done, done_set, remaining):
            self.tick()
            if not remaining:
                out.append(tuple(done))
                if len(out) > self.cap:
                    raise TooBig()
                return
            for n in remaining:
                if before[n] <= done_set:
                    rec(done + [n], done_set | {n}, [m for m in remaining if m != n])
        rec([], set(), locs)
        return out, vals

    def queue_visits(self, loc, v):
        """Visit orders (containers only) the documented queue algorithm can produce."""
        out = set()

        def kids_orders(l, x):
            ks = [(l + (k,), c) for k, c in _children(x) if isinstance(c, (dict, list))]
            if isinstance(x, dict):
                return [list(p) for p in itertools.permutations(ks)]
            return [ks]

        def interleavings(a, b):
            if not a:
                yield tuple(b)
                return
            if not b:
                yield tuple(a)
                return
            for rest in interleavings(a[1:], b):
                yield (a[0],) + rest
            for rest in interleavings(a, b[1:]):
                yield (b[0],) + rest

        seen = set()

        def run(queue, emitted):
            self.tick()
            key = (queue and tuple(l for l, _ in queue), emitted)
            if key in seen:
                return
            seen.add(key)
            if len(seen) > self.cap * 20:
                raise TooBig()
            if not queue:
                out.add(emitted)
                if len(out) > self.cap:
                    raise TooBig()
                return
            (l, x), rest = queue[0], queue[1:]
            em = emitted + (l,)
            for kids in kids_orders(l, x):
                # queue the children for later
                run(rest + tuple(kids), em)
                # or visit them now, interleaving each child's children into the queue
                def now(i, q, e):
                    if i == len(kids):
                        run(q, e)
                        return
                    cl, cx = kids[i]
                    for gk in kids_orders(cl, cx):
                        for merged in interleavings(q, tuple(gk)):
                            now(i + 1, merged, e + (cl,))
                if kids:
                    now(0, rest, em)
        for kids in kids_orders(loc, v):
            run(tuple(kids), (loc,))
        return out

    # -- whole queries
    def results(self, q, doc, visits="permitted"):
        """Set of tuples of locations."""
        self.work = 0
        seqs = {(_Node((), doc),)}
        for kind, sels in q[2]:
            nxt = set()
            for seq in seqs:
                per_node = []
                for loc, v in seq:
                    if kind == "child":
                        per_node.append(self.node_options(sels, loc, v, doc))
                    else:
                        per_node.append(self.desc_options(sels, loc, v, doc, visits))
                for r in self._concat_product(per_node):
                    nxt.add(r)
                    if len(nxt) > self.cap:
                        raise TooBig()
            seqs = nxt
        return {tuple(l for l, _ in s) for s in seqs}

    def desc_options(self, sels, loc, v, root, visits):
        if visits == "permitted":
            orders, vals = self.permitted_visits(loc, v)
        else:
            vals = dict(self.containers(loc, v))
            orders = self.queue_visits(loc, v)
        cache = {}
        out = set()
        for order in orders:
            opts = []
            for l in order:
                if l not in cache:
                    cache[l] = self.node_options(sels, l, vals[l], root)
                opts.append(cache[l])
            for r in self._concat_product(opts):
                out.add(r)
                if len(out) > self.cap:
                    raise TooBig()
        # scalars visited by the traversal select nothing; a scalar root selects nothing at all
        return out or {()}


class _Node:
    __slots__ = ("loc", "val")

    def __init__(self, loc, val):
        self.loc, self.val = loc, val

    def __hash__(self):
        return hash(self.loc)

    def __eq__(self, o):
        return self.loc == o.loc

    def __iter__(self):
        yield self.loc
        yield self.val

    def __getitem__(self, i):
        return self.loc if i == 0 else self.val


def verify_desc_wild(doc, observed):
    """Linear-time membership test for `$..[*]` / `$..*`: is `observed` (a sequence of locations) one of the orderings RFC 9535
    permits? Same partial order as Orders.permitted_visits (a container is visited after its parent; container elements of
    one array are visited in index order) + per visited container: its children form one contiguous run, an array's in index
    order, an object's in any order. Returns None if permitted, else a reason string."""
    def at(loc):
        v = doc
        for k in loc:
            v = v[k]
        return v
    runs = []          # (parent location, [keys])
    for loc in observed:
        if not loc:
            return "the root is not a child of anything"
        p = tuple(loc[:-1])
        if runs and runs[-1][0] == p:
            runs[-1][1].append(loc[-1])
        else:
            runs.append((p, [loc[-1]]))
    pos = {}
    for i, (p, keys) in enumerate(runs):
        if p in pos:
            return "children of %r appear in more than one run" % (p,)
        pos[p] = i
        try:
            v = at(p)
        except (KeyError, IndexError, TypeError):
            return "no such container %r" % (p,)
        if isinstance(v, list):
            if keys != list(range(len(v))):
                return "elements of array %r not selected exactly once in index order" % (p,)
        elif isinstance(v, dict):
            if len(keys) != len(v) or set(keys) != set(v):
                return "members of object %r not selected exactly once" % (p,)
        else:
            return "%r is not a container" % (p,)
    # every non-empty container must have its run
    stack = [((), doc)]
    n_expected = 0
    while stack:
        l, v = stack.pop()
        if isinstance(v, (list, dict)) and len(v):
            n_expected += 1
            if l not in pos:
                return "children of %r missing" % (l,)
            if l and pos[l[:-1]] > pos[l]:
                return "container %r visited before its parent" % (l,)
            items = list(enumerate(v)) if isinstance(v, list) else list(v.items())
            prev = None
            for k, c in items:
                if isinstance(c, (list, dict)):
                    stack.append((l + (k,), c))
                    if isinstance(v, list) and len(c):
                        if prev is not None and pos.get(prev, -1) > pos.get(l + (k,), 10**18):
                            return "array %r: element %r visited before an earlier element" % (l, k)
                        prev = l + (k,)
    if n_expected != len(runs):
        return "unexpected extra runs"
    return None
